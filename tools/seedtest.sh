#!/bin/bash
# usage: seedtest.sh <seed-dir-with-patch.diff-and-demo> <property-id> [more property ids]
# Confirms a seeded change in a fresh scratch worktree (suite passes, demo fails with / passes without)
# and runs the quick checks of the given properties against it. Nothing under /repo is modified.
set -u
shopt -s nullglob
SEED=$1; shift
W=/tmp/seedchk/$(basename $SEED)-$$
export GOFLAGS=-mod=mod GOPROXY=off
mkdir -p /tmp/seedchk
git -C /repo worktree add -q --detach $W HEAD || exit 2
trap 'git -C /repo worktree remove --force $W >/dev/null 2>&1' EXIT
cd $W
# demo without the change
for f in $SEED/*_test.go; do
  [ -f "$f" ] || continue
  pkg=$(grep -m1 '^package ' $f | awk '{print $2}')
  dir=$(cat $SEED/demo_dir 2>/dev/null || true)
  if [ -z "$dir" ]; then
    case $pkg in main|main_test) dir=cmd;; ast|ast_test) dir=input/ast;; *) dir=$(echo $pkg | sed 's/_test$//');; esac
  fi
  cp $f $dir/
  DEMOPKG=./$dir/
done
if [ -n "${DEMOPKG:-}" ]; then
  go test -count=1 $DEMOPKG >/tmp/seedchk/out.$$ 2>&1 && echo "demo WITHOUT change: pass" || { echo "demo WITHOUT change: FAIL (unexpected)"; tail -5 /tmp/seedchk/out.$$; }
fi
git apply $SEED/patch.diff || { echo "patch does not apply"; exit 2; }
go build ./... || { echo "does not build"; exit 2; }
if [ -n "${DEMOPKG:-}" ]; then
  go test -count=1 $DEMOPKG >/tmp/seedchk/out.$$ 2>&1 && echo "demo WITH change: PASS (unexpected)" || echo "demo WITH change: fail (as intended)"
  # suite without the demo file
  for f in $SEED/*_test.go; do [ -f "$f" ] && rm -f $W/*/$(basename $f) $W/*/*/$(basename $f); done
fi
go test -vet=off -count=1 ./... 2>&1 | grep -v "^ok\|no test files" | head -5
echo "suite with change: $(go test -vet=off -count=1 ./... 2>&1 | grep -c '^ok') packages ok, $(go test -vet=off -count=1 ./... 2>&1 | grep -c '^FAIL') FAIL"
for id in "$@"; do
  out=$(cd /verif && VERIF_OUT=/tmp/seedchk/out-$$ VERIF_REPO=$W timeout 1500 /verif/bin/crdverif check $id 2>&1); rc=$?
  echo "check $id exit=$rc: $(echo "$out" | grep -c '^VIOLATION') violations, $(echo "$out" | grep -c INCONCLUSIVE) inconclusive"
  echo "$out" | grep -A1 '^VIOLATION' | head -6 | cut -c1-300
  echo "$out" | grep INCONCLUSIVE | head -3 | cut -c1-300
done
rm -rf /tmp/seedchk/out.$$ /tmp/seedchk/out-$$
