#!/bin/bash
# runs every registered quick check against /repo (refreshes evidence/*.json); one line per property
cd /verif
for id in C01 C02 C03 C04 C05 C06 C07 C08 C09 C10 C11 C12 C13 C14 C15 C16 C17; do
  s=$(date +%s)
  out=$(timeout 3600 bin/crdverif check --tier quick $id 2>&1); rc=$?
  echo "$id exit=$rc $(( $(date +%s)-s ))s $(echo "$out" | grep -c INCONCLUSIVE) inconclusive $(echo "$out" | grep -c '^VIOLATION') violations $(echo "$out" | grep -c '^SKIPPED') skipped"
  echo "$out" | grep "INCONCLUSIVE\|^VIOLATION\|^SKIPPED" | head -3 | cut -c1-250
done
