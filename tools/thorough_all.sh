#!/bin/bash
# usage: thorough_all.sh ID...  — runs the thorough check of each property against /repo with a
# 45-minute cap, evidence redirected to /tmp/thorough-out (committed quick evidence untouched)
cd /verif
mkdir -p /tmp/thorough-out
for id in "$@"; do
  s=$(date +%s)
  VERIF_OUT=/tmp/thorough-out timeout 2700 bin/crdverif check --tier thorough $id > /tmp/thorough-out/$id.log 2>&1; rc=$?
  echo "$id exit=$rc $(( $(date +%s)-s ))s $(grep -c INCONCLUSIVE /tmp/thorough-out/$id.log) inconclusive $(grep -c '^VIOLATION' /tmp/thorough-out/$id.log) violations"
  grep "^harness" /tmp/thorough-out/$id.log | sed 's/queries=.*wall=/wall=/' | awk '{print "   " $0}' | sort -t= -k4 -n -r | head -4
done
