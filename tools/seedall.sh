#!/bin/bash
# usage: seedall.sh [parallelism]  — runs every seeded change under seeded/ against the quick
# check of the property it breaks (tools/seedtest.sh, scratch worktrees only) and prints one
# line per seed: "<seed> <property> caught|MISSED|inconclusive".
cd /verif
P=${1:-2}
ls -d seeded/C*/ | sed 's|seeded/||; s|/||' | xargs -P "$P" -I{} bash -c '
  s={}; p=$(python3 -c "import json;print(json.load(open(\"seeded/$s/meta.json\"))[\"breaks_property\"])")
  out=$(timeout 3600 tools/seedtest.sh /verif/seeded/$s $p 2>&1)
  line=$(echo "$out" | grep "^check $p")
  case "$line" in
    *"exit=1"*) r=caught;;
    *"exit=0"*) r=MISSED;;
    *) r=inconclusive;;
  esac
  echo "$s $p $r :: $line"
'
