#!/usr/bin/env python3
"""Prints a Markdown table of what the committed evidence says each registered harness covered
(one row per harness): paths, solver queries, assertions, bounds. Usage: tools/evidence_table.py"""
import json, glob, os
rows = []
for f in sorted(glob.glob(os.path.join(os.path.dirname(__file__), '..', 'evidence', 'C*.json'))):
    d = json.load(open(f))
    cov = d['coverage']
    for h in cov.get('harnesses') or []:
        name = h['harness'].replace('github.com/berquerant/crd/', '')
        q = h.get('queries', {})
        asserts = h.get('assertions') or {}
        solver = sum(a.get('solver_queries', 0) for a in asserts.values())
        folded = sum(a.get('constant_folded', 0) for a in asserts.values())
        bounds = ', '.join(f"{k}={v}" for k, v in sorted((cov.get('bounds') or {}).items()) if k.split('.')[0] in name or True) if h is (cov.get('harnesses') or [None])[0] else '〃'
        rows.append((d['property_id'], name, h.get('paths', h.get('states', '?')), q.get('sat', 0) + q.get('unsat', 0) + q.get('unknown', 0),
                     q.get('unknown', 0), len(asserts), solver, folded, bounds, h.get('wall_s', '')))
print("| id | harness | paths | solver queries (unknown) | assert labels | decided by query / folded | parameters (quick tier) | wall s |")
print('|---|---|---|---|---|---|---|---|')
for r in rows:
    print(f"| {r[0]} | {r[1]} | {r[2]} | {r[3]} ({r[4]}) | {r[5]} | {r[6]} / {r[7]} | {r[8]} | {float(r[9]):.1f} |")
