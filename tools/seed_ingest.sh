#!/bin/bash
# usage: ingest.sh C11 "C11 C04"
p=$1; props=$2
d=/verif/seeded/${p}n
mkdir -p $d
cp /tmp/seed14/$p/_seed/* $d/ 2>/dev/null
ls $d
/verif/tools/seedtest.sh $d $props 2>&1 | tee /tmp/seed14/$p.result
