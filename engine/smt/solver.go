package smt

import (
	"bufio"
	"fmt"
	"io"
	"math"
	"os"
	"os/exec"
	"strconv"
	"strings"
	"time"
)

var logSeq int

type Result int

const (
	Unsat Result = iota
	Sat
	Unknown
)

func (r Result) String() string { return [...]string{"unsat", "sat", "unknown"}[r] }

// Solver is one long-lived solver process fed through stdin (z3 -in, z3-new -in or
// cvc5 --incremental). Declarations are global; assertions live in push/pop scopes.
type Solver struct {
	Kind       string // "z3", "z3-new", "cvc5"
	cmd        *exec.Cmd
	in         io.WriteCloser
	out        *bufio.Reader
	lines      chan string
	defined    map[*Term]bool
	ctxGen     *Ctx
	Timeout    time.Duration
	Stats      SolverStats
	Log        io.Writer
	dead       bool
	level      int
	pendingPop bool
	scopes     [][]*Term
	Lost       bool // set after a restart: all scopes were lost
	LastError  string
}

type SolverStats struct {
	Sat, Unsat, Unknown, Errors int
	Time                        time.Duration
	Restarts                    int
}

func NewSolver(kind string, timeout time.Duration) (*Solver, error) {
	s := &Solver{Kind: kind, Timeout: timeout}
	if err := s.start(); err != nil {
		return nil, err
	}
	return s, nil
}

func (s *Solver) start() error {
	ms := int(s.Timeout / time.Millisecond)
	var cmd *exec.Cmd
	switch s.Kind {
	case "z3":
		cmd = exec.Command("z3", "-in", fmt.Sprintf("-t:%d", ms))
	case "z3-new":
		cmd = exec.Command("z3-new", "-in", fmt.Sprintf("-t:%d", ms))
	case "cvc5":
		cmd = exec.Command("cvc5", "--incremental", "--lang=smt2", "--produce-models", fmt.Sprintf("--tlimit-per=%d", ms))
	case "cvc5-int":
		cmd = exec.Command("cvc5", "--incremental", "--lang=smt2", "--produce-models", "--solve-bv-as-int=sum", fmt.Sprintf("--tlimit-per=%d", ms))
	default:
		return fmt.Errorf("unknown solver %q", s.Kind)
	}
	in, err := cmd.StdinPipe()
	if err != nil {
		return err
	}
	out, err := cmd.StdoutPipe()
	if err != nil {
		return err
	}
	cmd.Stderr = cmd.Stdout
	if err := cmd.Start(); err != nil {
		return err
	}
	if d := os.Getenv("VERIF_SMTLOG"); d != "" && s.Log == nil {
		logSeq++
		f, _ := os.Create(fmt.Sprintf("%s/solver-%d-%d.smt2", d, os.Getpid(), logSeq))
		s.Log = f
	}
	s.cmd, s.in, s.out = cmd, in, bufio.NewReaderSize(out, 1<<16)
	s.defined = map[*Term]bool{}
	s.lines = make(chan string, 64)
	s.dead = false
	s.level = 0
	s.scopes = nil
	go func(r *bufio.Reader, ch chan string) {
		for {
			l, err := r.ReadString('\n')
			if l != "" {
				ch <- strings.TrimRight(l, "\r\n")
			}
			if err != nil {
				close(ch)
				return
			}
		}
	}(s.out, s.lines)
	if !strings.HasPrefix(s.Kind, "cvc5") {
		s.send("(set-option :produce-models true)\n")
	} else {
		s.send("(set-logic ALL)\n")
	}
	return nil
}

func (s *Solver) Close() {
	if s.cmd != nil {
		s.in.Close()
		s.cmd.Process.Kill()
		s.cmd.Wait()
		s.cmd = nil
	}
}

func (s *Solver) restart() {
	s.Close()
	s.Stats.Restarts++
	if err := s.start(); err != nil {
		s.dead = true
	}
}

func (s *Solver) send(txt string) {
	if s.Log != nil {
		io.WriteString(s.Log, txt)
	}
	if _, err := io.WriteString(s.in, txt); err != nil {
		s.dead = true
	}
}

// readLine waits for one line of output (with a wall-clock guard).
func (s *Solver) readLine(d time.Duration) (string, bool) {
	select {
	case l, ok := <-s.lines:
		if !ok {
			s.dead = true
			return "", false
		}
		return l, true
	case <-time.After(d):
		return "", false
	}
}

func (s *Solver) name(t *Term) string {
	if t.Op == OVar || t.Op == OConst {
		return ""
	}
	if s.defined[t] {
		return "n" + strconv.Itoa(t.ID)
	}
	return ""
}

// define emits declarations for variables and define-funs for larger shared nodes.
func (s *Solver) define(t *Term, sb *strings.Builder) {
	if s.defined[t] {
		return
	}
	if t.Op == OConst {
		return
	}
	if t.Op == OVar {
		s.markDefined(t)
		fmt.Fprintf(sb, "(declare-const %s %s)\n", quoteName(t.Name), t.S)
		return
	}
	for _, a := range t.Args {
		s.define(a, sb)
	}
	if t.size >= 8 {
		fmt.Fprintf(sb, "(define-fun n%d () %s ", t.ID, t.S)
		t.print(sb, s.name, 0)
		sb.WriteString(")\n")
		s.markDefined(t)
	}
}

func (s *Solver) termText(t *Term, sb *strings.Builder) string {
	s.define(t, sb)
	if n := s.name(t); n != "" {
		return n
	}
	var b strings.Builder
	t.print(&b, s.name, 0)
	return b.String()
}

func (s *Solver) Push() {
	s.send("(push 1)\n")
	s.level++
	s.scopes = append(s.scopes, nil)
}
func (s *Solver) Pop() {
	if s.level > 0 {
		s.send("(pop 1)\n")
		s.level--
		// declarations and definitions made inside the scope are gone
		top := s.scopes[len(s.scopes)-1]
		s.scopes = s.scopes[:len(s.scopes)-1]
		for _, t := range top {
			delete(s.defined, t)
		}
	}
}

func (s *Solver) markDefined(t *Term) {
	s.defined[t] = true
	if n := len(s.scopes); n > 0 {
		s.scopes[n-1] = append(s.scopes[n-1], t)
	}
}
func (s *Solver) Level() int { return s.level }

func (s *Solver) Assert(t *Term) {
	var sb strings.Builder
	txt := s.termText(t, &sb)
	sb.WriteString("(assert ")
	sb.WriteString(txt)
	sb.WriteString(")\n")
	s.send(sb.String())
}

// Check runs check-sat under the current assertions plus extra (in a temporary scope).
func (s *Solver) Check(extra ...*Term) Result {
	if s.dead {
		s.Stats.Unknown++
		return Unknown
	}
	t0 := time.Now()
	defer func() { s.Stats.Time += time.Since(t0) }()
	if len(extra) > 0 {
		s.Push()
		for _, e := range extra {
			s.Assert(e)
		}
	}
	s.send("(check-sat)\n")
	res := Unknown
	sawErr := false
	for {
		l, ok := s.readLine(s.Timeout + 5*time.Second)
		if !ok {
			// hung or died: restart; caller's scopes are lost, so mark dead for this path
			s.Stats.Unknown++
			s.restartLost()
			return Unknown
		}
		switch {
		case l == "sat":
			res = Sat
		case l == "unsat":
			res = Unsat
		case l == "unknown" || l == "timeout":
			res = Unknown
		case strings.HasPrefix(l, "(error"):
			sawErr = true
			s.Stats.Errors++
			if s.LastError == "" {
				s.LastError = l
			}
			continue
		default:
			continue
		}
		break
	}
	if sawErr {
		res = Unknown
	}
	if res == Unknown {
		// after a timeout or an error line the process state (scopes, cancel flag) is not
		// trustworthy: start a fresh process; the owner re-asserts its path condition
		s.Stats.Unknown++
		s.restartLost()
		return Unknown
	}
	if len(extra) > 0 {
		if res == Sat {
			// keep scope for model query; caller must call EndCheck
			s.pendingPop = true
		} else {
			s.Pop()
		}
	}
	switch res {
	case Sat:
		s.Stats.Sat++
	case Unsat:
		s.Stats.Unsat++
	default:
		s.Stats.Unknown++
	}
	return res
}

// Retime restarts the process with a different per-query time limit (scopes are lost, Lost is
// set). Used to give one undecided query a second, longer chance — e.g. on a loaded machine.
func (s *Solver) Retime(d time.Duration) {
	s.Timeout = d
	s.restartLost()
}

// restartLost restarts the process after a hang; all scopes are gone. Lost is set so
// the owner can re-synchronise.
func (s *Solver) restartLost() {
	s.restart()
	s.Lost = true
}

// EndCheck closes the temporary scope left open by a Sat answer of Check(extra...).
func (s *Solver) EndCheck() {
	if s.pendingPop {
		s.Pop()
		s.pendingPop = false
	}
}

// Model returns values for the given variables; call after Check returned Sat and
// before EndCheck.
func (s *Solver) Model(vars []*Term) (Model, error) {
	m := Model{}
	if len(vars) == 0 {
		return m, nil
	}
	var sb strings.Builder
	var names []string
	for _, v := range vars {
		if !s.defined[v] {
			continue // never sent to the solver: unconstrained
		}
		names = append(names, v.Name)
	}
	if len(names) == 0 {
		return m, nil
	}
	sb.WriteString("(get-value (")
	for _, n := range names {
		sb.WriteString(quoteName(n))
		sb.WriteByte(' ')
	}
	sb.WriteString("))\n")
	s.send(sb.String())
	// read until parentheses balance
	var buf strings.Builder
	depth, started := 0, false
	for {
		l, ok := s.readLine(s.Timeout + 5*time.Second)
		if !ok {
			return nil, fmt.Errorf("solver: no model output")
		}
		if strings.HasPrefix(l, "(error") {
			return nil, fmt.Errorf("solver: %s", l)
		}
		buf.WriteString(l)
		buf.WriteByte('\n')
		inBar := false
		for _, ch := range l {
			switch {
			case ch == '|':
				inBar = !inBar
			case inBar:
			case ch == '(':
				depth++
				started = true
			case ch == ')':
				depth--
			}
		}
		if started && depth <= 0 {
			break
		}
	}
	sx, err := parseSexp(buf.String())
	if err != nil {
		return nil, err
	}
	for _, pair := range sx.list {
		if len(pair.list) != 2 {
			continue
		}
		name := strings.Trim(pair.list[0].atom, "|")
		v, err := sexpValue(pair.list[1])
		if err != nil {
			return nil, fmt.Errorf("model value of %s: %v", name, err)
		}
		m[name] = v
	}
	return m, nil
}

type sexp struct {
	atom string
	list []*sexp
	isL  bool
}

func parseSexp(s string) (*sexp, error) {
	pos := 0
	var parse func() (*sexp, error)
	skip := func() {
		for pos < len(s) && (s[pos] == ' ' || s[pos] == '\n' || s[pos] == '\t' || s[pos] == '\r') {
			pos++
		}
	}
	parse = func() (*sexp, error) {
		skip()
		if pos >= len(s) {
			return nil, fmt.Errorf("sexp: eof")
		}
		if s[pos] == '(' {
			pos++
			n := &sexp{isL: true}
			for {
				skip()
				if pos >= len(s) {
					return nil, fmt.Errorf("sexp: eof in list")
				}
				if s[pos] == ')' {
					pos++
					return n, nil
				}
				c, err := parse()
				if err != nil {
					return nil, err
				}
				n.list = append(n.list, c)
			}
		}
		st := pos
		if s[pos] == '|' {
			pos++
			for pos < len(s) && s[pos] != '|' {
				pos++
			}
			pos++
			return &sexp{atom: s[st:pos]}, nil
		}
		for pos < len(s) && !strings.ContainsRune(" \n\t\r()", rune(s[pos])) {
			pos++
		}
		return &sexp{atom: s[st:pos]}, nil
	}
	return parse()
}

func sexpValue(x *sexp) (uint64, error) {
	if !x.isL {
		a := x.atom
		switch {
		case a == "true":
			return 1, nil
		case a == "false":
			return 0, nil
		case strings.HasPrefix(a, "#x"):
			return strconv.ParseUint(a[2:], 16, 64)
		case strings.HasPrefix(a, "#b"):
			return strconv.ParseUint(a[2:], 2, 64)
		}
		return 0, fmt.Errorf("unparsed atom %q", a)
	}
	// (_ bvN w) | (fp s e m) | (_ +zero 11 53) | (_ NaN 11 53) ...
	if len(x.list) >= 2 && x.list[0].atom == "_" {
		a := x.list[1].atom
		switch {
		case strings.HasPrefix(a, "bv"):
			return strconv.ParseUint(a[2:], 10, 64)
		case a == "+zero":
			return 0, nil
		case a == "-zero":
			return 1 << 63, nil
		case a == "+oo":
			return math.Float64bits(math.Inf(1)), nil
		case a == "-oo":
			return math.Float64bits(math.Inf(-1)), nil
		case a == "NaN":
			return math.Float64bits(math.NaN()), nil
		}
	}
	if len(x.list) == 4 && x.list[0].atom == "fp" {
		sg, e1 := sexpValue(x.list[1])
		ex, e2 := sexpValue(x.list[2])
		mn, e3 := sexpValue(x.list[3])
		if e1 != nil || e2 != nil || e3 != nil {
			return 0, fmt.Errorf("bad fp literal")
		}
		return sg<<63 | ex<<52 | mn, nil
	}
	return 0, fmt.Errorf("unparsed value")
}
