// Package smt is a small hash-consed term DAG over Bool, fixed-width bit-vectors and
// float64, with a constant folder, an SMT-LIB2 printer and a concrete evaluator.
package smt

import (
	"fmt"
	"math"
	"math/bits"
	"strconv"
	"strings"
)

type Kind uint8

const (
	KBool Kind = iota
	KBV
	KFP // float64 only
)

type Sort struct {
	K Kind
	W int // bit width for KBV
}

var (
	Bool = Sort{K: KBool}
	FP64 = Sort{K: KFP, W: 64}
)

func BV(w int) Sort { return Sort{K: KBV, W: w} }

func (s Sort) String() string {
	switch s.K {
	case KBool:
		return "Bool"
	case KBV:
		return fmt.Sprintf("(_ BitVec %d)", s.W)
	default:
		return "(_ FloatingPoint 11 53)"
	}
}

type Op uint8

const (
	OConst Op = iota
	OVar
	ONot
	OAnd
	OOr
	OEq
	OIte
	OAdd
	OSub
	OMul
	OUDiv
	OURem
	OSDiv
	OSRem
	OBAnd
	OBOr
	OBXor
	OBNot
	ONeg
	OShl
	OLShr
	OAShr
	OUlt
	OUle
	OSlt
	OSle
	OExtract // P1=hi P2=lo
	OZext    // P1=extra bits
	OSext    // P1=extra bits
	OConcat
	// floating point (RNE unless stated)
	OFAdd
	OFSub
	OFMul
	OFDiv
	OFNeg
	OFLt
	OFLe
	OFEq
	OFRoundRNA // math.Round
	OFFloor
	OFCeil
	OFTrunc
	OUToF   // to_fp_unsigned from BV
	OSToF   // to_fp from signed BV
	OFToUBV // P1 = width, RTZ
	OFToSBV // P1 = width, RTZ
	OFIsNaN
	OFIsInf
	OFBits // BV64 -> FP reinterpret (to_fp from bits)
)

type Term struct {
	Op   Op
	S    Sort
	Args []*Term
	Val  uint64  // const BV / Bool(0/1)
	F    float64 // const FP
	Name string  // var
	P1   int
	P2   int
	ID   int
	size int
}

func (t *Term) IsConst() bool { return t.Op == OConst }
func (t *Term) IsTrue() bool  { return t.Op == OConst && t.S.K == KBool && t.Val == 1 }
func (t *Term) IsFalse() bool { return t.Op == OConst && t.S.K == KBool && t.Val == 0 }

// Ctx owns the hash-cons table. Not safe for concurrent use.
type Ctx struct {
	tab   map[string]*Term
	next  int
	Vars  []*Term
	vars  map[string]*Term
	True  *Term
	False *Term
}

func NewCtx() *Ctx {
	c := &Ctx{tab: map[string]*Term{}, vars: map[string]*Term{}}
	c.True = c.BoolConst(true)
	c.False = c.BoolConst(false)
	return c
}

func mask(w int) uint64 {
	if w >= 64 {
		return ^uint64(0)
	}
	return (uint64(1) << uint(w)) - 1
}

func (c *Ctx) mk(t Term) *Term {
	var sb strings.Builder
	sb.WriteByte(byte(t.Op) + 'A')
	sb.WriteByte(byte(t.S.K) + '0')
	sb.WriteString(strconv.Itoa(t.S.W))
	switch t.Op {
	case OConst:
		sb.WriteByte(':')
		if t.S.K == KFP {
			sb.WriteString(strconv.FormatUint(math.Float64bits(t.F), 16))
		} else {
			sb.WriteString(strconv.FormatUint(t.Val, 16))
		}
	case OVar:
		sb.WriteByte(':')
		sb.WriteString(t.Name)
	default:
		sb.WriteByte(':')
		sb.WriteString(strconv.Itoa(t.P1))
		sb.WriteByte(',')
		sb.WriteString(strconv.Itoa(t.P2))
		for _, a := range t.Args {
			sb.WriteByte(' ')
			sb.WriteString(strconv.Itoa(a.ID))
		}
	}
	k := sb.String()
	if x, ok := c.tab[k]; ok {
		return x
	}
	n := new(Term)
	*n = t
	n.ID = c.next
	c.next++
	n.size = 1
	for _, a := range n.Args {
		n.size += a.size
		if n.size > 1<<20 {
			n.size = 1 << 20
		}
	}
	c.tab[k] = n
	return n
}

func (c *Ctx) NumTerms() int { return c.next }

func (c *Ctx) BoolConst(b bool) *Term {
	v := uint64(0)
	if b {
		v = 1
	}
	return c.mk(Term{Op: OConst, S: Bool, Val: v})
}

func (c *Ctx) BVConst(w int, v uint64) *Term {
	return c.mk(Term{Op: OConst, S: BV(w), Val: v & mask(w)})
}

func (c *Ctx) FPConst(f float64) *Term {
	return c.mk(Term{Op: OConst, S: FP64, F: f})
}

// Var returns the variable with that name, creating it on first use.
func (c *Ctx) Var(name string, s Sort) *Term {
	if v, ok := c.vars[name]; ok {
		if v.S != s {
			panic("smt: variable " + name + " redeclared with another sort")
		}
		return v
	}
	v := c.mk(Term{Op: OVar, S: s, Name: name})
	c.vars[name] = v
	c.Vars = append(c.Vars, v)
	return v
}

func (c *Ctx) LookupVar(name string) *Term { return c.vars[name] }

// ---- boolean ----

func (c *Ctx) Not(a *Term) *Term {
	if a.IsConst() {
		return c.BoolConst(a.Val == 0)
	}
	if a.Op == ONot {
		return a.Args[0]
	}
	return c.mk(Term{Op: ONot, S: Bool, Args: []*Term{a}})
}

func (c *Ctx) And(xs ...*Term) *Term {
	var out []*Term
	for _, x := range xs {
		if x.IsFalse() {
			return c.False
		}
		if x.IsTrue() {
			continue
		}
		if x.Op == OAnd {
			out = append(out, x.Args...)
			continue
		}
		out = append(out, x)
	}
	out = dedup(out)
	for _, x := range out {
		if x.Op == ONot {
			for _, y := range out {
				if y == x.Args[0] {
					return c.False
				}
			}
		}
	}
	switch len(out) {
	case 0:
		return c.True
	case 1:
		return out[0]
	}
	return c.mk(Term{Op: OAnd, S: Bool, Args: out})
}

func (c *Ctx) Or(xs ...*Term) *Term {
	var out []*Term
	for _, x := range xs {
		if x.IsTrue() {
			return c.True
		}
		if x.IsFalse() {
			continue
		}
		if x.Op == OOr {
			out = append(out, x.Args...)
			continue
		}
		out = append(out, x)
	}
	out = dedup(out)
	for _, x := range out {
		if x.Op == ONot {
			for _, y := range out {
				if y == x.Args[0] {
					return c.True
				}
			}
		}
	}
	switch len(out) {
	case 0:
		return c.False
	case 1:
		return out[0]
	}
	return c.mk(Term{Op: OOr, S: Bool, Args: out})
}

func dedup(xs []*Term) []*Term {
	if len(xs) < 2 {
		return xs
	}
	seen := make(map[*Term]bool, len(xs))
	out := xs[:0:0]
	for _, x := range xs {
		if !seen[x] {
			seen[x] = true
			out = append(out, x)
		}
	}
	return out
}

func (c *Ctx) Implies(a, b *Term) *Term { return c.Or(c.Not(a), b) }

func (c *Ctx) Eq(a, b *Term) *Term {
	if a.S != b.S {
		panic(fmt.Sprintf("smt.Eq: sort mismatch %v vs %v", a.S, b.S))
	}
	if a == b {
		if a.S.K == KFP {
			// structural equality of FP terms: NaN = NaN in SMT "=" ; keep it symbolic-free
			return c.True
		}
		return c.True
	}
	if a.IsConst() && b.IsConst() {
		if a.S.K == KFP {
			return c.BoolConst(math.Float64bits(a.F) == math.Float64bits(b.F))
		}
		return c.BoolConst(a.Val == b.Val)
	}
	if a.IsConst() {
		a, b = b, a
	}
	if a.S.K == KBool {
		if b.IsTrue() {
			return a
		}
		if b.IsFalse() {
			return c.Not(a)
		}
	}
	// push comparisons with a constant through ite chains
	if b.IsConst() && a.Op == OIte && (a.Args[1].IsConst() || a.Args[2].IsConst() || a.Args[1].Op == OIte || a.Args[2].Op == OIte) && a.size < 4096 {
		return c.Ite(a.Args[0], c.Eq(a.Args[1], b), c.Eq(a.Args[2], b))
	}
	if b.IsConst() && a.S.K == KBV {
		// zext(x) == k
		if a.Op == OZext {
			in := a.Args[0]
			if b.Val > mask(in.S.W) {
				return c.False
			}
			return c.Eq(in, c.BVConst(in.S.W, b.Val))
		}
	}
	if a.ID > b.ID && !b.IsConst() {
		a, b = b, a
	}
	return c.mk(Term{Op: OEq, S: Bool, Args: []*Term{a, b}})
}

func (c *Ctx) Ite(cond, a, b *Term) *Term {
	if a.S != b.S {
		panic(fmt.Sprintf("smt.Ite: sort mismatch %v vs %v", a.S, b.S))
	}
	if cond.IsTrue() {
		return a
	}
	if cond.IsFalse() {
		return b
	}
	if a == b {
		return a
	}
	if cond.Op == ONot {
		return c.Ite(cond.Args[0], b, a)
	}
	if a.S.K == KBool {
		switch {
		case a.IsTrue() && b.IsFalse():
			return cond
		case a.IsFalse() && b.IsTrue():
			return c.Not(cond)
		case a.IsTrue():
			return c.Or(cond, b)
		case a.IsFalse():
			return c.And(c.Not(cond), b)
		case b.IsTrue():
			return c.Or(c.Not(cond), a)
		case b.IsFalse():
			return c.And(cond, a)
		}
	}
	return c.mk(Term{Op: OIte, S: a.S, Args: []*Term{cond, a, b}})
}

// ---- bit-vectors ----

func sext64(v uint64, w int) int64 {
	if w >= 64 {
		return int64(v)
	}
	sh := uint(64 - w)
	return int64(v<<sh) >> sh
}

func (c *Ctx) bin(op Op, a, b *Term) *Term {
	if a.S != b.S || a.S.K != KBV {
		panic(fmt.Sprintf("smt: binop %d sort mismatch %v vs %v", op, a.S, b.S))
	}
	w := a.S.W
	if a.IsConst() && b.IsConst() {
		if v, ok := foldBV(op, a.Val, b.Val, w); ok {
			return c.BVConst(w, v)
		}
	}
	switch op {
	case OAdd:
		if a.IsConst() && a.Val == 0 {
			return b
		}
		if b.IsConst() && b.Val == 0 {
			return a
		}
		if a.IsConst() { // constants to the right
			a, b = b, a
		}
		// (x + k1) + k2
		if b.IsConst() && a.Op == OAdd && a.Args[1].IsConst() {
			return c.bin(OAdd, a.Args[0], c.BVConst(w, a.Args[1].Val+b.Val))
		}
	case OSub:
		if b.IsConst() && b.Val == 0 {
			return a
		}
		if a == b {
			return c.BVConst(w, 0)
		}
		if b.IsConst() {
			return c.bin(OAdd, a, c.BVConst(w, -b.Val))
		}
	case OMul:
		if a.IsConst() {
			a, b = b, a
		}
		if b.IsConst() {
			if b.Val == 0 {
				return b
			}
			if b.Val == 1 {
				return a
			}
		}
	case OBAnd:
		if a.IsConst() {
			a, b = b, a
		}
		if b.IsConst() {
			if b.Val == 0 {
				return b
			}
			if b.Val == mask(w) {
				return a
			}
		}
		if a == b {
			return a
		}
	case OBOr:
		if a.IsConst() {
			a, b = b, a
		}
		if b.IsConst() && b.Val == 0 {
			return a
		}
		if a == b {
			return a
		}
	case OBXor:
		if a.IsConst() {
			a, b = b, a
		}
		if b.IsConst() && b.Val == 0 {
			return a
		}
	case OShl, OLShr, OAShr:
		if b.IsConst() && b.Val == 0 {
			return a
		}
	case OUDiv, OSDiv:
		if b.IsConst() && b.Val == 1 {
			return a
		}
	}
	// distribute over an ite with constant arms when the other operand is a constant:
	// keeps table look-ups followed by arithmetic in "ite of constants" form
	if b.IsConst() && a.Op == OIte && a.size < 2048 && iteOfConsts(a) {
		return c.Ite(a.Args[0], c.bin(op, a.Args[1], b), c.bin(op, a.Args[2], b))
	}
	return c.mk(Term{Op: op, S: a.S, Args: []*Term{a, b}})
}

func iteOfConsts(t *Term) bool {
	for t.Op == OIte {
		if !t.Args[1].IsConst() {
			if !iteOfConsts(t.Args[1]) {
				return false
			}
		}
		t = t.Args[2]
	}
	return t.IsConst()
}

func foldBV(op Op, x, y uint64, w int) (uint64, bool) {
	m := mask(w)
	switch op {
	case OAdd:
		return (x + y) & m, true
	case OSub:
		return (x - y) & m, true
	case OMul:
		return (x * y) & m, true
	case OUDiv:
		if y == 0 {
			return m, true
		}
		return x / y, true
	case OURem:
		if y == 0 {
			return x, true
		}
		return x % y, true
	case OSDiv:
		sx, sy := sext64(x, w), sext64(y, w)
		if sy == 0 {
			if sx >= 0 {
				return m, true
			}
			return 1, true
		}
		if sy == -1 {
			return uint64(-sx) & m, true
		}
		return uint64(sx/sy) & m, true
	case OSRem:
		sx, sy := sext64(x, w), sext64(y, w)
		if sy == 0 {
			return x, true
		}
		if sy == -1 {
			return 0, true
		}
		return uint64(sx%sy) & m, true
	case OBAnd:
		return x & y, true
	case OBOr:
		return x | y, true
	case OBXor:
		return x ^ y, true
	case OShl:
		if y >= uint64(w) {
			return 0, true
		}
		return (x << y) & m, true
	case OLShr:
		if y >= uint64(w) {
			return 0, true
		}
		return x >> y, true
	case OAShr:
		sx := sext64(x, w)
		if y >= uint64(w) {
			if sx < 0 {
				return m, true
			}
			return 0, true
		}
		return uint64(sx>>y) & m, true
	}
	return 0, false
}

func (c *Ctx) Add(a, b *Term) *Term  { return c.bin(OAdd, a, b) }
func (c *Ctx) Sub(a, b *Term) *Term  { return c.bin(OSub, a, b) }
func (c *Ctx) Mul(a, b *Term) *Term  { return c.bin(OMul, a, b) }
func (c *Ctx) UDiv(a, b *Term) *Term { return c.bin(OUDiv, a, b) }
func (c *Ctx) URem(a, b *Term) *Term { return c.bin(OURem, a, b) }
func (c *Ctx) SDiv(a, b *Term) *Term { return c.bin(OSDiv, a, b) }
func (c *Ctx) SRem(a, b *Term) *Term { return c.bin(OSRem, a, b) }
func (c *Ctx) BAnd(a, b *Term) *Term { return c.bin(OBAnd, a, b) }
func (c *Ctx) BOr(a, b *Term) *Term  { return c.bin(OBOr, a, b) }
func (c *Ctx) BXor(a, b *Term) *Term { return c.bin(OBXor, a, b) }
func (c *Ctx) Shl(a, b *Term) *Term  { return c.bin(OShl, a, b) }
func (c *Ctx) LShr(a, b *Term) *Term { return c.bin(OLShr, a, b) }
func (c *Ctx) AShr(a, b *Term) *Term { return c.bin(OAShr, a, b) }

func (c *Ctx) BNot(a *Term) *Term {
	if a.IsConst() {
		return c.BVConst(a.S.W, ^a.Val)
	}
	return c.mk(Term{Op: OBNot, S: a.S, Args: []*Term{a}})
}

func (c *Ctx) Neg(a *Term) *Term {
	if a.IsConst() {
		return c.BVConst(a.S.W, -a.Val)
	}
	return c.mk(Term{Op: ONeg, S: a.S, Args: []*Term{a}})
}

func (c *Ctx) cmp(op Op, a, b *Term) *Term {
	if a.S != b.S || a.S.K != KBV {
		panic(fmt.Sprintf("smt: cmp sort mismatch %v vs %v", a.S, b.S))
	}
	w := a.S.W
	if a.IsConst() && b.IsConst() {
		var r bool
		switch op {
		case OUlt:
			r = a.Val < b.Val
		case OUle:
			r = a.Val <= b.Val
		case OSlt:
			r = sext64(a.Val, w) < sext64(b.Val, w)
		case OSle:
			r = sext64(a.Val, w) <= sext64(b.Val, w)
		}
		return c.BoolConst(r)
	}
	if a == b {
		return c.BoolConst(op == OUle || op == OSle)
	}
	if op == OUlt && b.IsConst() && b.Val == 0 {
		return c.False
	}
	if op == OUle && a.IsConst() && a.Val == 0 {
		return c.True
	}
	if b.IsConst() && a.Op == OIte && a.size < 2048 && iteOfConsts(a) {
		return c.Ite(a.Args[0], c.cmp(op, a.Args[1], b), c.cmp(op, a.Args[2], b))
	}
	if a.IsConst() && b.Op == OIte && b.size < 2048 && iteOfConsts(b) {
		return c.Ite(b.Args[0], c.cmp(op, a, b.Args[1]), c.cmp(op, a, b.Args[2]))
	}
	return c.mk(Term{Op: op, S: Bool, Args: []*Term{a, b}})
}

func (c *Ctx) Ult(a, b *Term) *Term { return c.cmp(OUlt, a, b) }
func (c *Ctx) Ule(a, b *Term) *Term { return c.cmp(OUle, a, b) }
func (c *Ctx) Slt(a, b *Term) *Term { return c.cmp(OSlt, a, b) }
func (c *Ctx) Sle(a, b *Term) *Term { return c.cmp(OSle, a, b) }

func (c *Ctx) Extract(a *Term, hi, lo int) *Term {
	if lo == 0 && hi == a.S.W-1 {
		return a
	}
	w := hi - lo + 1
	if a.IsConst() {
		return c.BVConst(w, a.Val>>uint(lo))
	}
	if a.Op == OZext || a.Op == OSext {
		in := a.Args[0]
		if hi < in.S.W {
			return c.Extract(in, hi, lo)
		}
	}
	if a.Op == OIte && a.size < 2048 && iteOfConsts(a) {
		return c.Ite(a.Args[0], c.Extract(a.Args[1], hi, lo), c.Extract(a.Args[2], hi, lo))
	}
	return c.mk(Term{Op: OExtract, S: BV(w), Args: []*Term{a}, P1: hi, P2: lo})
}

func (c *Ctx) Zext(a *Term, to int) *Term {
	if to == a.S.W {
		return a
	}
	if to < a.S.W {
		return c.Extract(a, to-1, 0)
	}
	if a.IsConst() {
		return c.BVConst(to, a.Val)
	}
	if a.Op == OZext {
		return c.Zext(a.Args[0], to)
	}
	if a.Op == OIte && a.size < 2048 && iteOfConsts(a) {
		return c.Ite(a.Args[0], c.Zext(a.Args[1], to), c.Zext(a.Args[2], to))
	}
	return c.mk(Term{Op: OZext, S: BV(to), Args: []*Term{a}, P1: to - a.S.W})
}

func (c *Ctx) Sext(a *Term, to int) *Term {
	if to == a.S.W {
		return a
	}
	if to < a.S.W {
		return c.Extract(a, to-1, 0)
	}
	if a.IsConst() {
		return c.BVConst(to, uint64(sext64(a.Val, a.S.W)))
	}
	if a.Op == OIte && a.size < 2048 && iteOfConsts(a) {
		return c.Ite(a.Args[0], c.Sext(a.Args[1], to), c.Sext(a.Args[2], to))
	}
	return c.mk(Term{Op: OSext, S: BV(to), Args: []*Term{a}, P1: to - a.S.W})
}

func (c *Ctx) Concat(hi, lo *Term) *Term {
	w := hi.S.W + lo.S.W
	if hi.IsConst() && lo.IsConst() && w <= 64 {
		return c.BVConst(w, hi.Val<<uint(lo.S.W)|lo.Val)
	}
	return c.mk(Term{Op: OConcat, S: BV(w), Args: []*Term{hi, lo}})
}

// ---- floating point ----

func (c *Ctx) fbin(op Op, a, b *Term) *Term {
	if a.IsConst() && b.IsConst() {
		switch op {
		case OFAdd:
			return c.FPConst(a.F + b.F)
		case OFSub:
			return c.FPConst(a.F - b.F)
		case OFMul:
			return c.FPConst(a.F * b.F)
		case OFDiv:
			return c.FPConst(a.F / b.F)
		}
	}
	return c.mk(Term{Op: op, S: FP64, Args: []*Term{a, b}})
}
func (c *Ctx) FAdd(a, b *Term) *Term { return c.fbin(OFAdd, a, b) }
func (c *Ctx) FSub(a, b *Term) *Term { return c.fbin(OFSub, a, b) }
func (c *Ctx) FMul(a, b *Term) *Term { return c.fbin(OFMul, a, b) }
func (c *Ctx) FDiv(a, b *Term) *Term { return c.fbin(OFDiv, a, b) }
func (c *Ctx) FNeg(a *Term) *Term {
	if a.IsConst() {
		return c.FPConst(-a.F)
	}
	return c.mk(Term{Op: OFNeg, S: FP64, Args: []*Term{a}})
}
func (c *Ctx) fcmp(op Op, a, b *Term) *Term {
	if a.IsConst() && b.IsConst() {
		switch op {
		case OFLt:
			return c.BoolConst(a.F < b.F)
		case OFLe:
			return c.BoolConst(a.F <= b.F)
		case OFEq:
			return c.BoolConst(a.F == b.F)
		}
	}
	return c.mk(Term{Op: op, S: Bool, Args: []*Term{a, b}})
}
func (c *Ctx) FLt(a, b *Term) *Term { return c.fcmp(OFLt, a, b) }
func (c *Ctx) FLe(a, b *Term) *Term { return c.fcmp(OFLe, a, b) }
func (c *Ctx) FEq(a, b *Term) *Term { return c.fcmp(OFEq, a, b) }

func (c *Ctx) FUn(op Op, a *Term) *Term {
	if a.IsConst() {
		switch op {
		case OFRoundRNA:
			return c.FPConst(math.Round(a.F))
		case OFFloor:
			return c.FPConst(math.Floor(a.F))
		case OFCeil:
			return c.FPConst(math.Ceil(a.F))
		case OFTrunc:
			return c.FPConst(math.Trunc(a.F))
		case OFIsNaN:
			return c.BoolConst(math.IsNaN(a.F))
		case OFIsInf:
			return c.BoolConst(math.IsInf(a.F, 0))
		}
	}
	s := FP64
	if op == OFIsNaN || op == OFIsInf {
		s = Bool
	}
	return c.mk(Term{Op: op, S: s, Args: []*Term{a}})
}

func (c *Ctx) UToF(a *Term) *Term {
	if a.IsConst() {
		return c.FPConst(float64(a.Val))
	}
	return c.mk(Term{Op: OUToF, S: FP64, Args: []*Term{a}})
}
func (c *Ctx) SToF(a *Term) *Term {
	if a.IsConst() {
		return c.FPConst(float64(sext64(a.Val, a.S.W)))
	}
	return c.mk(Term{Op: OSToF, S: FP64, Args: []*Term{a}})
}

// FToUBV converts with truncation toward zero; the caller is responsible for the
// in-range side condition (Go's result is implementation-defined out of range).
func (c *Ctx) FToUBV(a *Term, w int) *Term {
	if a.IsConst() && a.F >= 0 && a.F < 18446744073709551616.0 {
		return c.BVConst(w, uint64(a.F))
	}
	return c.mk(Term{Op: OFToUBV, S: BV(w), Args: []*Term{a}, P1: w})
}
func (c *Ctx) FToSBV(a *Term, w int) *Term {
	if a.IsConst() && a.F > -9.2e18 && a.F < 9.2e18 {
		return c.BVConst(w, uint64(int64(a.F)))
	}
	return c.mk(Term{Op: OFToSBV, S: BV(w), Args: []*Term{a}, P1: w})
}

// ---- printing ----

func (t *Term) String() string {
	var sb strings.Builder
	t.print(&sb, nil, 0)
	return sb.String()
}

// print writes SMT-LIB2; named(t) may return a name to use instead of expanding t.
func (t *Term) print(sb *strings.Builder, named func(*Term) string, depth int) {
	if named != nil && depth > 0 {
		if n := named(t); n != "" {
			sb.WriteString(n)
			return
		}
	}
	switch t.Op {
	case OConst:
		switch t.S.K {
		case KBool:
			if t.Val == 1 {
				sb.WriteString("true")
			} else {
				sb.WriteString("false")
			}
		case KBV:
			if t.S.W%4 == 0 {
				fmt.Fprintf(sb, "#x%0*x", t.S.W/4, t.Val)
			} else {
				fmt.Fprintf(sb, "#b%0*b", t.S.W, t.Val)
			}
		case KFP:
			b := math.Float64bits(t.F)
			fmt.Fprintf(sb, "(fp #b%b #b%011b #x%013x)", b>>63, (b>>52)&0x7ff, b&((1<<52)-1))
		}
		return
	case OVar:
		sb.WriteString(quoteName(t.Name))
		return
	}
	var head string
	switch t.Op {
	case ONot:
		head = "not"
	case OAnd:
		head = "and"
	case OOr:
		head = "or"
	case OEq:
		head = "="
	case OIte:
		head = "ite"
	case OAdd:
		head = "bvadd"
	case OSub:
		head = "bvsub"
	case OMul:
		head = "bvmul"
	case OUDiv:
		head = "bvudiv"
	case OURem:
		head = "bvurem"
	case OSDiv:
		head = "bvsdiv"
	case OSRem:
		head = "bvsrem"
	case OBAnd:
		head = "bvand"
	case OBOr:
		head = "bvor"
	case OBXor:
		head = "bvxor"
	case OBNot:
		head = "bvnot"
	case ONeg:
		head = "bvneg"
	case OShl:
		head = "bvshl"
	case OLShr:
		head = "bvlshr"
	case OAShr:
		head = "bvashr"
	case OUlt:
		head = "bvult"
	case OUle:
		head = "bvule"
	case OSlt:
		head = "bvslt"
	case OSle:
		head = "bvsle"
	case OExtract:
		head = fmt.Sprintf("(_ extract %d %d)", t.P1, t.P2)
	case OZext:
		head = fmt.Sprintf("(_ zero_extend %d)", t.P1)
	case OSext:
		head = fmt.Sprintf("(_ sign_extend %d)", t.P1)
	case OConcat:
		head = "concat"
	case OFAdd:
		head = "fp.add RNE"
	case OFSub:
		head = "fp.sub RNE"
	case OFMul:
		head = "fp.mul RNE"
	case OFDiv:
		head = "fp.div RNE"
	case OFNeg:
		head = "fp.neg"
	case OFLt:
		head = "fp.lt"
	case OFLe:
		head = "fp.leq"
	case OFEq:
		head = "fp.eq"
	case OFRoundRNA:
		head = "fp.roundToIntegral RNA"
	case OFFloor:
		head = "fp.roundToIntegral RTN"
	case OFCeil:
		head = "fp.roundToIntegral RTP"
	case OFTrunc:
		head = "fp.roundToIntegral RTZ"
	case OUToF:
		head = "(_ to_fp_unsigned 11 53) RNE"
	case OSToF:
		head = "(_ to_fp 11 53) RNE"
	case OFToUBV:
		head = fmt.Sprintf("(_ fp.to_ubv %d) RTZ", t.P1)
	case OFToSBV:
		head = fmt.Sprintf("(_ fp.to_sbv %d) RTZ", t.P1)
	case OFIsNaN:
		head = "fp.isNaN"
	case OFIsInf:
		head = "fp.isInfinite"
	case OFBits:
		head = "(_ to_fp 11 53)"
	default:
		panic("smt: print: unknown op")
	}
	sb.WriteByte('(')
	sb.WriteString(head)
	for _, a := range t.Args {
		sb.WriteByte(' ')
		a.print(sb, named, depth+1)
	}
	sb.WriteByte(')')
}

func quoteName(n string) string {
	for _, r := range n {
		if !(r >= 'a' && r <= 'z' || r >= 'A' && r <= 'Z' || r >= '0' && r <= '9' || r == '_' || r == '.' || r == '!' || r == '$') {
			return "|" + n + "|"
		}
	}
	return n
}

// ---- evaluation under a model ----

// Model maps variable names to values (BV/Bool as uint64, FP as float64 bits).
type Model map[string]uint64

type evalVal struct {
	u uint64
	f float64
}

// Eval evaluates t; variables missing from the model are 0/false/+0.0.
func Eval(t *Term, m Model) (uint64, float64) {
	memo := map[*Term]evalVal{}
	v := eval(t, m, memo)
	return v.u, v.f
}

func b2u(b bool) uint64 {
	if b {
		return 1
	}
	return 0
}

func eval(t *Term, m Model, memo map[*Term]evalVal) evalVal {
	if v, ok := memo[t]; ok {
		return v
	}
	var r evalVal
	arg := func(i int) evalVal { return eval(t.Args[i], m, memo) }
	w := t.S.W
	switch t.Op {
	case OConst:
		r = evalVal{u: t.Val, f: t.F}
	case OVar:
		x := m[t.Name]
		if t.S.K == KFP {
			r.f = math.Float64frombits(x)
		} else {
			r.u = x & maskSort(t.S)
		}
	case ONot:
		r.u = 1 - arg(0).u
	case OAnd:
		r.u = 1
		for i := range t.Args {
			if arg(i).u == 0 {
				r.u = 0
				break
			}
		}
	case OOr:
		for i := range t.Args {
			if arg(i).u == 1 {
				r.u = 1
				break
			}
		}
	case OEq:
		a, b := arg(0), arg(1)
		if t.Args[0].S.K == KFP {
			r.u = b2u(math.Float64bits(a.f) == math.Float64bits(b.f) || (math.IsNaN(a.f) && math.IsNaN(b.f)))
		} else {
			r.u = b2u(a.u == b.u)
		}
	case OIte:
		if arg(0).u == 1 {
			r = arg(1)
		} else {
			r = arg(2)
		}
	case OAdd, OSub, OMul, OUDiv, OURem, OSDiv, OSRem, OBAnd, OBOr, OBXor, OShl, OLShr, OAShr:
		r.u, _ = foldBV(t.Op, arg(0).u, arg(1).u, w)
	case OBNot:
		r.u = ^arg(0).u & mask(w)
	case ONeg:
		r.u = -arg(0).u & mask(w)
	case OUlt:
		r.u = b2u(arg(0).u < arg(1).u)
	case OUle:
		r.u = b2u(arg(0).u <= arg(1).u)
	case OSlt:
		aw := t.Args[0].S.W
		r.u = b2u(sext64(arg(0).u, aw) < sext64(arg(1).u, aw))
	case OSle:
		aw := t.Args[0].S.W
		r.u = b2u(sext64(arg(0).u, aw) <= sext64(arg(1).u, aw))
	case OExtract:
		r.u = (arg(0).u >> uint(t.P2)) & mask(w)
	case OZext:
		r.u = arg(0).u
	case OSext:
		r.u = uint64(sext64(arg(0).u, t.Args[0].S.W)) & mask(w)
	case OConcat:
		r.u = (arg(0).u<<uint(t.Args[1].S.W) | arg(1).u) & mask(w)
	case OFAdd:
		r.f = arg(0).f + arg(1).f
	case OFSub:
		r.f = arg(0).f - arg(1).f
	case OFMul:
		r.f = arg(0).f * arg(1).f
	case OFDiv:
		r.f = arg(0).f / arg(1).f
	case OFNeg:
		r.f = -arg(0).f
	case OFLt:
		r.u = b2u(arg(0).f < arg(1).f)
	case OFLe:
		r.u = b2u(arg(0).f <= arg(1).f)
	case OFEq:
		r.u = b2u(arg(0).f == arg(1).f)
	case OFRoundRNA:
		r.f = math.Round(arg(0).f)
	case OFFloor:
		r.f = math.Floor(arg(0).f)
	case OFCeil:
		r.f = math.Ceil(arg(0).f)
	case OFTrunc:
		r.f = math.Trunc(arg(0).f)
	case OUToF:
		r.f = float64(arg(0).u)
	case OSToF:
		r.f = float64(sext64(arg(0).u, t.Args[0].S.W))
	case OFToUBV:
		f := arg(0).f
		if f >= 0 && f < 18446744073709551616.0 {
			r.u = uint64(f) & mask(w)
		}
	case OFToSBV:
		f := arg(0).f
		if f > -9.3e18 && f < 9.3e18 {
			r.u = uint64(int64(f)) & mask(w)
		}
	case OFIsNaN:
		r.u = b2u(math.IsNaN(arg(0).f))
	case OFIsInf:
		r.u = b2u(math.IsInf(arg(0).f, 0))
	case OFBits:
		r.f = math.Float64frombits(arg(0).u)
	default:
		panic("smt: eval: unknown op")
	}
	memo[t] = r
	return r
}

func maskSort(s Sort) uint64 {
	if s.K == KBool {
		return 1
	}
	return mask(s.W)
}

// Vars returns the free variables of t.
func FreeVars(t *Term, seen map[*Term]bool, out *[]*Term) {
	if seen[t] {
		return
	}
	seen[t] = true
	if t.Op == OVar {
		*out = append(*out, t)
		return
	}
	for _, a := range t.Args {
		FreeVars(a, seen, out)
	}
}

var _ = bits.Len

// Rebuild reconstructs t with new arguments through the simplifying constructors.
func (c *Ctx) Rebuild(t *Term, a []*Term) *Term {
	switch t.Op {
	case OConst, OVar:
		return t
	case ONot:
		return c.Not(a[0])
	case OAnd:
		return c.And(a...)
	case OOr:
		return c.Or(a...)
	case OEq:
		return c.Eq(a[0], a[1])
	case OIte:
		return c.Ite(a[0], a[1], a[2])
	case OAdd, OSub, OMul, OUDiv, OURem, OSDiv, OSRem, OBAnd, OBOr, OBXor, OShl, OLShr, OAShr:
		return c.bin(t.Op, a[0], a[1])
	case OBNot:
		return c.BNot(a[0])
	case ONeg:
		return c.Neg(a[0])
	case OUlt, OUle, OSlt, OSle:
		return c.cmp(t.Op, a[0], a[1])
	case OExtract:
		return c.Extract(a[0], t.P1, t.P2)
	case OZext:
		return c.Zext(a[0], t.S.W)
	case OSext:
		return c.Sext(a[0], t.S.W)
	case OConcat:
		return c.Concat(a[0], a[1])
	case OFAdd, OFSub, OFMul, OFDiv:
		return c.fbin(t.Op, a[0], a[1])
	case OFNeg:
		return c.FNeg(a[0])
	case OFLt, OFLe, OFEq:
		return c.fcmp(t.Op, a[0], a[1])
	case OFRoundRNA, OFFloor, OFCeil, OFTrunc, OFIsNaN, OFIsInf:
		return c.FUn(t.Op, a[0])
	case OUToF:
		return c.UToF(a[0])
	case OSToF:
		return c.SToF(a[0])
	case OFToUBV:
		return c.FToUBV(a[0], t.P1)
	case OFToSBV:
		return c.FToSBV(a[0], t.P1)
	}
	panic("smt: Rebuild: unknown op")
}

// Subst replaces variables by the bound terms (memoised in memo).
func (c *Ctx) Subst(t *Term, bind map[*Term]*Term, memo map[*Term]*Term) *Term {
	if t.Op == OConst {
		return t
	}
	if r, ok := memo[t]; ok {
		return r
	}
	var r *Term
	if t.Op == OVar {
		if b, ok := bind[t]; ok {
			r = b
		} else {
			r = t
		}
	} else {
		changed := false
		na := make([]*Term, len(t.Args))
		for i, a := range t.Args {
			na[i] = c.Subst(a, bind, memo)
			if na[i] != a {
				changed = true
			}
		}
		if changed {
			r = c.Rebuild(t, na)
		} else {
			r = t
		}
	}
	memo[t] = r
	return r
}
