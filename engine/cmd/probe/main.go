package main

import (
	"fmt"
	"os"
	"time"

	"golang.org/x/tools/go/packages"
	"golang.org/x/tools/go/ssa"
	"golang.org/x/tools/go/ssa/ssautil"
	_ "gopkg.in/yaml.v3"
)

func main() {
	t0 := time.Now()
	cfg := &packages.Config{Mode: packages.LoadAllSyntax, Dir: "/repo", Env: append(os.Environ(), "GOFLAGS=-mod=mod", "GOPROXY=off")}
	pkgs, err := packages.Load(cfg, "./...")
	if err != nil {
		panic(err)
	}
	fmt.Println("loaded", len(pkgs), time.Since(t0))
	prog, spkgs := ssautil.AllPackages(pkgs, ssa.InstantiateGenerics)
	prog.Build()
	fmt.Println("built", len(spkgs), time.Since(t0))
}
