package main

// harnessSpec registers one harness of a property with its tier bounds.
type harnessSpec struct {
	Name          string         // "<pkg dir>.<Func>", e.g. "note.VerifC15Semitone"
	Quick         map[string]int // Param overrides in the quick tier
	Thorough      map[string]int
	Marks         []string // marks that must be reached (vacuity guard)
	Solver        string   // default z3
	TimeoutS      int
	MustTerminate bool
}

var end = []string{"end"}

var properties = map[string][]harnessSpec{
	"C13": {
		{Name: "cmd.VerifC13ListCmd", Marks: end},
		{Name: "op.VerifC13Scale", Marks: []string{"end", "supported", "rejected", "relative-supported"}},
		{Name: "op.VerifC13TwoScales", Marks: end},
		{Name: "op.VerifC13Listing", Marks: end},
		{Name: "desc.VerifC13Describe", Marks: end},
		{Name: "op.VerifC13ParseKey", Quick: map[string]int{"C13.maxLen": 3}, Thorough: map[string]int{"C13.maxLen": 4}, Marks: []string{"end", "parse-error", "no-scale"}},
	},
	"C14": {
		{Name: "op.VerifC14Step", Marks: end},
		{Name: "op.VerifC14RingAt", Marks: end, TimeoutS: 60},
		{Name: "op.VerifC14Chain", Quick: map[string]int{"C14.maxLen": 2}, Thorough: map[string]int{"C14.maxLen": 4}, Marks: end},
		{Name: "cmd.VerifC14ConvCmd", Marks: end},
		{Name: "op.VerifC14Laws", Marks: end},
	},
	"C15": {
		{Name: "note.VerifC15Semitone", Solver: "cvc5-int", Quick: map[string]int{"C15.maxN": 64}, Thorough: map[string]int{"C15.maxN": 1024}, Marks: end},
		{Name: "note.VerifC15SemitoneUnbounded", Solver: "cvc5-int", Marks: end, MustTerminate: true},
		{Name: "note.VerifC15AddDegree", Solver: "cvc5-int", Quick: map[string]int{"C15.maxAdd": 15}, Thorough: map[string]int{"C15.maxAdd": 64}, Marks: []string{"end", "refused"}},
		{Name: "note.VerifC15ParseDegree", Solver: "cvc5-int", Quick: map[string]int{"C15.digits": 2}, Thorough: map[string]int{"C15.digits": 3}, Marks: end},
		{Name: "cmd.VerifC15DescribeCmd", Marks: end},
		{Name: "desc.VerifC15Describe", Quick: map[string]int{"C15.chords": 4}, Thorough: map[string]int{"C15.chords": 46}, Marks: end},
		{Name: "desc.VerifC15DescribeHistory", Marks: end},
		{Name: "note.VerifC10DegreeCodec", Quick: map[string]int{"C10.maxNumber": 99}, Thorough: map[string]int{"C10.maxNumber": 999}, Marks: end},
	},
	"C01": {
		{Name: "chord.VerifC16LookupHistory", Quick: map[string]int{"C16.history": 2}, Thorough: map[string]int{"C16.history": 3}, Marks: end},
		{Name: "play.VerifC01ApplyHistory", Marks: end},
		{Name: "cmd.VerifC01FlagOverride", Marks: end},
		{Name: "play.VerifC01WriteSequence", Quick: map[string]int{"C01.maxInstances": 2}, Thorough: map[string]int{"C01.maxInstances": 3}, Marks: end},
		{Name: "play.VerifC01Pitch", Quick: map[string]int{"C01.mode": 1, "C01.maxDegree": 15}, Thorough: map[string]int{"C01.mode": 0, "C01.maxDegree": 15}, Marks: []string{"end", "rejected"}},
		{Name: "play.VerifC01Pitch", Quick: map[string]int{"C01.mode": 2, "C01.maxDegree": 8}, Thorough: map[string]int{"C01.mode": 2, "C01.maxDegree": 22}, Marks: []string{"end", "rejected"}},
	},
	"C02": {
		{Name: "cmd.VerifC02PlainIntegers", Marks: end},
		{Name: "play.VerifC01WriteSequence", Quick: map[string]int{"C01.maxInstances": 2}, Thorough: map[string]int{"C01.maxInstances": 3}, Marks: end},
		{Name: "midix.VerifC02NoteStep", Quick: map[string]int{"C02.maxTracks": 3, "C02.maxKeys": 4}, Thorough: map[string]int{"C02.maxTracks": 4, "C02.maxKeys": 6}, Marks: end},
		{Name: "midix.VerifC02TwoNotes", Quick: map[string]int{"C02.maxTracks2": 3}, Thorough: map[string]int{"C02.maxTracks2": 4}, Marks: end},
		{Name: "midix.VerifC02RestStep", Marks: end},
		{Name: "midix.VerifC02ControlStep", Marks: end},
		{Name: "midix.VerifC02Ticks1", Solver: "cvc5", TimeoutS: 120, Quick: map[string]int{"C02.numDenoms1": 12, "C02.maxNum1": 255}, Thorough: map[string]int{"C02.numDenoms1": 39, "C02.maxNum1": 1023}, Marks: end},
		{Name: "midix.VerifC02Ticks2", Solver: "cvc5", TimeoutS: 120, Quick: map[string]int{"C02.numDenoms2": 3, "C02.maxNum2": 15}, Thorough: map[string]int{"C02.numDenoms2": 6, "C02.maxNum2": 63}, Marks: end},
		{Name: "midix.VerifC02Ticks3", Solver: "cvc5", TimeoutS: 300, Quick: map[string]int{"C02.numDenoms3": 1, "C02.maxNum3": 7}, Thorough: map[string]int{"C02.numDenoms3": 2, "C02.maxNum3": 15}, Marks: end},
	},
	"C07": {
		{Name: "play.VerifC01WriteSequence", Quick: map[string]int{"C01.maxInstances": 2}, Thorough: map[string]int{"C01.maxInstances": 3}, Marks: end},
		{Name: "play.VerifC07SettingsStep", Marks: end},
		{Name: "play.VerifC07Texts", Quick: map[string]int{"C07.maxText": 3}, Thorough: map[string]int{"C07.maxText": 6}, Marks: end},
		{Name: "play.VerifC05MetaEcho", Marks: end},
		{Name: "play.VerifC07Dynamics", Marks: end},
		{Name: "midix.VerifC08File", Quick: map[string]int{"C08.maxOps": 2, "C08.maxTracks": 2, "C08.maxKeys": 1}, Thorough: map[string]int{"C08.maxOps": 2, "C08.maxTracks": 2, "C08.maxKeys": 2}, Marks: end},
		{Name: "cmd.VerifC01FlagOverride", Marks: end},
		{Name: "cmd.VerifC07BPMFlag", Quick: map[string]int{"C07.bpmDigits": 3}, Thorough: map[string]int{"C07.bpmDigits": 4}, Marks: []string{"end", "flag-absent", "flag-given"}},
		{Name: "midix.VerifC02ControlStep", Marks: end},
		{Name: "play.VerifC07Defaults", Marks: end},
	},
	"C03": {
		{Name: "astconv.VerifC03Syllable", Quick: map[string]int{"C03.bass": 1}, Thorough: map[string]int{"C03.bass": 1}, Marks: []string{"end", "end-with-bass", "rejected"}},
		{Name: "cmd.VerifC03KeyFlag", Marks: end},
		{Name: "astconv.VerifC11SpellingHistory", Marks: end},
		{Name: "astconv.VerifC03History", Marks: []string{"end", "rejected"}},
		// "every supported key" includes the key in force after a {key=…} change, on a chord or a rest
		{Name: "astconv.VerifC05KeyChange", Marks: []string{"end", "carrier-rejected"}},
	},
	"C04": {
		{Name: "cmd.VerifC04HugeText", Quick: map[string]int{"C04.hugeKiB": 1100, "C04.hugeFillers": 1}, Thorough: map[string]int{"C04.hugeKiB": 1100, "C04.hugeFillers": 3}, Marks: end},
		{Name: "input/ast.VerifC04Parser", Quick: map[string]int{"C04.maxTokens": 8}, Thorough: map[string]int{"C04.maxTokens": 10}, Marks: []string{"end", "accepted", "rejected", "bad-token"}},
		{Name: "input/ast.VerifC04ScanToken", Quick: map[string]int{"C04.window": 5}, Thorough: map[string]int{"C04.window": 6}, Marks: []string{"end", "token", "eof"}, MustTerminate: true},
		{Name: "input/ast.VerifC04ScanToken", Quick: map[string]int{"C04.window": 3, "C04.wide": 1}, Thorough: map[string]int{"C04.window": 4, "C04.wide": 1}, Marks: []string{"end", "token", "eof"}, MustTerminate: true},
		{Name: "input/ast.VerifC04Sentences", Quick: map[string]int{"C04.sentenceElements": 3}, Thorough: map[string]int{"C04.sentenceElements": 4}, Marks: end},
		{Name: "cmd.VerifC04RestOnly", Marks: end},
		{Name: "input/ast.VerifC04ParseRunes", Quick: map[string]int{"C04.runes": 4}, Thorough: map[string]int{"C04.runes": 5}, Marks: []string{"end", "accepted", "rejected"}, MustTerminate: true},
	},
	"C09": {
		{Name: "cmd.VerifC09CommentRun", Quick: map[string]int{"C09.commentLines": 300}, Thorough: map[string]int{"C09.commentLines": 3000}, Marks: end, MustTerminate: true},
		{Name: "cmd.VerifC09KeyConvCommand", Quick: map[string]int{"C09.convLetters": 3}, Thorough: map[string]int{"C09.convLetters": 4}, Marks: end},
		{Name: "input/ast.VerifC04ScanToken", Quick: map[string]int{"C04.window": 4}, Thorough: map[string]int{"C04.window": 6}, Marks: end, MustTerminate: true},
		{Name: "input/ast.VerifC04ParseRunes", Quick: map[string]int{"C04.runes": 3}, Thorough: map[string]int{"C04.runes": 5}, Marks: end, MustTerminate: true},
		{Name: "op.VerifC09BPMField", Quick: map[string]int{"C09.maxLen": 3}, Thorough: map[string]int{"C09.maxLen": 5}, Marks: []string{"end", "accepted"}},
		{Name: "op.VerifC09MeterField", Quick: map[string]int{"C09.maxLen": 3}, Thorough: map[string]int{"C09.maxLen": 5}, Marks: []string{"end", "accepted"}},
		{Name: "op.VerifC09DynamicField", Quick: map[string]int{"C09.maxLen": 3}, Thorough: map[string]int{"C09.maxLen": 4}, Marks: []string{"end", "accepted"}},
		{Name: "op.VerifC09KeyField", Quick: map[string]int{"C09.maxLen": 3}, Thorough: map[string]int{"C09.maxLen": 4}, Marks: []string{"end", "accepted"}},
		{Name: "note.VerifC09ValueField", Quick: map[string]int{"C09.maxLen": 3}, Thorough: map[string]int{"C09.maxLen": 5}, Marks: []string{"end", "accepted"}},
		{Name: "note.VerifC09NewValue", Marks: end},
		{Name: "note.VerifC09DegreeField", Quick: map[string]int{"C09.maxLen": 2}, Thorough: map[string]int{"C09.maxLen": 3}, Marks: []string{"end", "accepted"}},
		{Name: "note.VerifC15SemitoneUnbounded", Solver: "cvc5-int", Marks: end, MustTerminate: true},
		{Name: "play.VerifC09WriteNoPanic", Quick: map[string]int{"C09.maxInstances": 2}, Thorough: map[string]int{"C09.maxInstances": 3}, Marks: []string{"end", "refused", "played"}},
		{Name: "chord.VerifC16UserDict", Quick: map[string]int{"C16.maxUser": 2}, Thorough: map[string]int{"C16.maxUser": 3}, Marks: []string{"end", "rejected", "accepted"}, MustTerminate: true},
		{Name: "cmd.VerifC07BPMFlag", Quick: map[string]int{"C07.bpmDigits": 3}, Thorough: map[string]int{"C07.bpmDigits": 4}, Marks: []string{"end", "flag-absent", "flag-given"}},
		{Name: "cmd.VerifC09MainExit", Marks: end},
		{Name: "cmd.VerifC09WriteConv", Marks: []string{"end", "converted", "refused"}},
		{Name: "cmd.VerifC09CLINonsense", Marks: end},
		{Name: "cmd.VerifC09InfoCommands", Quick: map[string]int{"C09.flagLen": 2}, Thorough: map[string]int{"C09.flagLen": 3}, Marks: []string{"end", "failed", "printed"}},
		{Name: "astconv.VerifC09ConvertNoPanic", Quick: map[string]int{"C09.digits": 2, "C09.metaLen": 2}, Thorough: map[string]int{"C09.digits": 3, "C09.metaLen": 3}, Marks: []string{"end", "converted", "refused"}},
	},
	"C16": {
		{Name: "chord.VerifC16LookupHistory", Quick: map[string]int{"C16.history": 2}, Thorough: map[string]int{"C16.history": 3}, Marks: end},
		{Name: "cmd.VerifC16ChordFiles", Marks: end},
		{Name: "cmd.VerifC16AttrFiles", Marks: end},
		{Name: "cmd.VerifC16BrokenDictWrite", Marks: end},
		{Name: "chord.VerifC16Builtins", Marks: end},
		{Name: "chord.VerifC16AttrNames", Marks: end},
		{Name: "chord.VerifC16UserDict", Quick: map[string]int{"C16.maxUser": 2}, Thorough: map[string]int{"C16.maxUser": 3}, Marks: []string{"end", "rejected", "accepted"}, MustTerminate: true},
	},
	"C05": {
		{Name: "astconv.VerifC05RoundTrip", Marks: []string{"end", "needs-double-accidental"}},
		{Name: "astconv.VerifC05KeyChange", Marks: []string{"end", "carrier-rejected"}},
		{Name: "astconv.VerifC05Classifier", Quick: map[string]int{"C05.maxChords": 2, "C05.preemptions": 1}, Thorough: map[string]int{"C05.maxChords": 2, "C05.preemptions": 2}, Marks: []string{"end", "classified", "refused"}},
		{Name: "play.VerifC05Transpose", Quick: map[string]int{"C05.maxDegree": 9}, Thorough: map[string]int{"C05.maxDegree": 12}, Marks: []string{"end", "rejected"}},
		{Name: "play.VerifC05MetaEcho", Marks: []string{"end"}},
	},
	"C11": {
		{Name: "input/ast.VerifC11Trivia", Quick: map[string]int{"C11.window": 3}, Thorough: map[string]int{"C11.window": 4}, Marks: end, MustTerminate: true},
		{Name: "input/ast.VerifC11TriviaBetween", Quick: map[string]int{"C11.between": 3}, Thorough: map[string]int{"C11.between": 4}, Marks: []string{"end", "skipped"}, MustTerminate: true},
		{Name: "input/ast.VerifC11MetaSpaces", Quick: map[string]int{"C11.metaLen": 2}, Thorough: map[string]int{"C11.metaLen": 3}, Marks: end},
		{Name: "cmd.VerifC11DescribeAccidental", Marks: end},
		{Name: "cmd.VerifC11LongUnicode", Quick: map[string]int{"C11.longChords": 600}, Thorough: map[string]int{"C11.longChords": 1200}, Marks: end},
		{Name: "astconv.VerifC11SpellingHistory", Marks: end},
		{Name: "input/ast.VerifC11Underscore", Quick: map[string]int{"C11.symbol": 3}, Thorough: map[string]int{"C11.symbol": 4}, Marks: []string{"end", "not-a-plain-symbol"}, MustTerminate: true},
		{Name: "astconv.VerifC11LeadingZeros", Quick: map[string]int{"C11.digits": 2}, Thorough: map[string]int{"C11.digits": 4}, Marks: []string{"end", "converted"}},
		{Name: "astconv.VerifC11Accidental", Marks: []string{"end", "honoured", "not-an-accidental"}},
	},
	"C10": {
		{Name: "note.VerifC10DegreeCodec", Quick: map[string]int{"C10.maxNumber": 99}, Thorough: map[string]int{"C10.maxNumber": 999}, Marks: end},
		{Name: "op.VerifC10KeyCodec", Marks: end},
		{Name: "op.VerifC10ScalarCodecs", Solver: "cvc5-int", Quick: map[string]int{"C10.maxNumber": 99}, Thorough: map[string]int{"C10.maxNumber": 999}, Marks: end},
		{Name: "input.VerifC10Instance", Solver: "cvc5-int", Quick: map[string]int{"C10.degrees": 2, "C10.symbols": 2, "C10.maxValues": 1, "C10.maxText": 1}, Thorough: map[string]int{"C10.degrees": 3, "C10.symbols": 3, "C10.maxValues": 1, "C10.maxText": 1}, Marks: end},
		{Name: "cmd.VerifC10WriteConvPipe", Marks: end},
	},
	"C12": {
		{Name: "op.VerifC12AllScalesOrder", Thorough: map[string]int{"mapOrder.full": 1}, Marks: end},
		{Name: "note.VerifC12SemitoneOrder", Thorough: map[string]int{"mapOrder.full": 1}, Marks: end},
		{Name: "cmd.VerifC12KeyConvOutput", Thorough: map[string]int{"mapOrder.full": 1}, Marks: end},
		{Name: "cmd.VerifC12KeyListOutput", Thorough: map[string]int{"mapOrder.full": 1}, Marks: end},
		{Name: "chord.VerifC12BuildOrder", Thorough: map[string]int{"mapOrder.full": 1}, Marks: end},
		{Name: "cmd.VerifC12IOPaths", Marks: []string{"end", "failed", "printed"}},
		{Name: "cmd.VerifC12LongInput", Quick: map[string]int{"C12.longChords": 520}, Thorough: map[string]int{"C12.longChords": 2000}, Marks: end},
		{Name: "cmd.VerifC12LongWrite", Quick: map[string]int{"C12.longInstances": 400}, Thorough: map[string]int{"C12.longInstances": 1500}, Marks: end},
		{Name: "cmd.VerifC12InfoOutputs", Marks: end},
		{Name: "cmd.VerifC12EmptyInputPaths", Marks: end},
		{Name: "cmd.VerifC12DebugFlag", Marks: []string{"end", "failed"}},
		{Name: "astconv.VerifC05Classifier", Quick: map[string]int{"C05.maxChords": 2, "C05.preemptions": 1}, Thorough: map[string]int{"C05.maxChords": 2, "C05.preemptions": 2}, Marks: []string{"end", "classified", "refused"}},
		{Name: "op.VerifC14Chain", Quick: map[string]int{"C14.maxLen": 2}, Thorough: map[string]int{"C14.maxLen": 3}, Marks: end},
	},
	"C08": {
		{Name: "midix.VerifC08File", Quick: map[string]int{"C08.maxOps": 2, "C08.maxTracks": 2, "C08.maxKeys": 2}, Thorough: map[string]int{"C08.maxOps": 2, "C08.maxTracks": 3, "C08.maxKeys": 2}, Marks: end},
		{Name: "midix.VerifC08TrackCountLimit", Marks: end},
		{Name: "cmd.VerifC08LongDurations", Marks: []string{"refused", "written"}},
		{Name: "cmd.VerifC08WriteCmd", Quick: map[string]int{"C08.cmdTracks": 4}, Thorough: map[string]int{"C08.cmdTracks": 8}, Marks: end},
		{Name: "midix.VerifC02NoteStep", Quick: map[string]int{"C02.maxTracks": 3, "C02.maxKeys": 3}, Thorough: map[string]int{"C02.maxTracks": 4, "C02.maxKeys": 5}, Marks: end},
		{Name: "midix.VerifC06CloseStep", Quick: map[string]int{"C06.maxTracks": 8}, Thorough: map[string]int{"C06.maxTracks": 32}, Marks: end},
	},
	"C17": {
		{Name: "desc.VerifC17Diatonic", Marks: end},
		// the key the pipeline's `write --key K` plays in is the key in force at each chord — also when it arrives on a rest
		{Name: "play.VerifC01WriteSequence", Quick: map[string]int{"C01.maxInstances": 2}, Thorough: map[string]int{"C01.maxInstances": 3}, Marks: end},
		// the fourteen chords are played by one process: what the dictionary answers for a listed symbol must not depend on the symbols resolved before it
		{Name: "chord.VerifC16LookupHistory", Quick: map[string]int{"C16.history": 2}, Thorough: map[string]int{"C16.history": 3}, Marks: end},
	},
	"C06": {
		{Name: "midix.VerifC06AddStep", Quick: map[string]int{"C06.maxTracks": 8}, Thorough: map[string]int{"C06.maxTracks": 32}, Marks: end},
		{Name: "midix.VerifC06TwoAdds", Quick: map[string]int{"C06.maxTracks2": 4}, Thorough: map[string]int{"C06.maxTracks2": 8}, Marks: end},
		{Name: "midix.VerifC06Select", Solver: "cvc5-int", Quick: map[string]int{"C06.maxTracksSel": 32}, Thorough: map[string]int{"C06.maxTracksSel": 64}, Marks: end, TimeoutS: 60},
		{Name: "midix.VerifC06SelectRejects", Marks: end},
		{Name: "midix.VerifC06CloseStep", Quick: map[string]int{"C06.maxTracks": 8}, Thorough: map[string]int{"C06.maxTracks": 32}, Marks: end},
		{Name: "cmd.VerifC08WriteCmd", Quick: map[string]int{"C08.cmdTracks": 4}, Thorough: map[string]int{"C08.cmdTracks": 8}, Marks: end},
	},
}

func init() {
	for _, id := range []string{} {
		notApplicable[id] = "check not built yet in this session (work in progress; see DESIGN.md section 4 for the plan)"
	}
}
