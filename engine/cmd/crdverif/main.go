package main

import (
	"encoding/json"
	"flag"
	"fmt"
	"os"
	"runtime/pprof"
	"sort"
	"strings"
	"time"

	"crdverif/sym"
)

func main() {
	if len(os.Args) < 2 {
		fmt.Fprintln(os.Stderr, "usage: crdverif explore|check|list ...")
		os.Exit(2)
	}
	switch os.Args[1] {
	case "explore":
		explore(os.Args[2:])
	case "check":
		os.Exit(checkMain(os.Args[2:]))
	case "list":
		listMain()
	case "replay":
		os.Exit(replayMain(os.Args[2:]))
	case "manifest":
		manifestMain()
	case "selftest":
		os.Exit(selftestMain())
	default:
		fmt.Fprintln(os.Stderr, "unknown subcommand")
		os.Exit(2)
	}
}

func repoDir() string {
	if d := os.Getenv("VERIF_REPO"); d != "" {
		return d
	}
	return "/repo"
}

// outDir is where evidence and replays are written: /verif, or VERIF_OUT when the checks are
// pointed at a scratch copy of the repository (seeded changes) and must not touch the
// committed evidence.
func outDir() string {
	if d := os.Getenv("VERIF_OUT"); d != "" {
		return d
	}
	return verifDir()
}

func verifDir() string {
	if d := os.Getenv("VERIF_DIR"); d != "" {
		return d
	}
	return "/verif"
}

func loadProgram() (*sym.Program, error) {
	ov, err := sym.BuildOverlay(verifDir()+"/harness", repoDir())
	if err != nil {
		return nil, err
	}
	if g, gerr := genGrammar(repoDir()); gerr == nil {
		ov[repoDir()+"/input/ast/zz_verif_grammar_gen.go"] = g
	} else {
		// harnesses that need the grammar will fail to compile and report inconclusive
		fmt.Fprintln(os.Stderr, "warning:", gerr)
	}
	t0 := time.Now()
	p, err := sym.Load(repoDir(), ov)
	if err != nil {
		return nil, err
	}
	p.LoadTime = time.Since(t0).Seconds()
	return p, nil
}

func listMain() {
	p, err := loadProgram()
	if err != nil {
		fmt.Fprintln(os.Stderr, err)
		os.Exit(2)
	}
	var names []string
	for n := range p.Harness {
		names = append(names, n)
	}
	sort.Strings(names)
	for _, n := range names {
		fmt.Println(n)
	}
}

// explore runs one harness and dumps the raw result (development aid).
func explore(args []string) {
	fs := flag.NewFlagSet("explore", flag.ExitOnError)
	workers := fs.Int("j", 8, "workers")
	maxPaths := fs.Int64("max-paths", 0, "path cap")
	solver := fs.String("solver", "z3", "solver")
	timeout := fs.Duration("timeout", 10*time.Second, "per-query timeout")
	params := fs.String("params", "", "k=v,k=v")
	verbose := fs.Bool("v", false, "verbose")
	prof := fs.String("cpuprofile", "", "write cpu profile")
	fs.Parse(args)
	if *prof != "" {
		f, _ := os.Create(*prof)
		pprof.StartCPUProfile(f)
		defer pprof.StopCPUProfile()
	}
	p, err := loadProgram()
	if err != nil {
		fmt.Fprintln(os.Stderr, err)
		os.Exit(2)
	}
	fmt.Printf("loaded in %.1fs\n", p.LoadTime)
	pm := map[string]int{}
	for _, kv := range strings.Split(*params, ",") {
		if kv == "" {
			continue
		}
		var k string
		var v int
		parts := strings.SplitN(kv, "=", 2)
		k = parts[0]
		fmt.Sscanf(parts[1], "%d", &v)
		pm[k] = v
	}
	for _, h := range fs.Args() {
		name := h
		if !strings.Contains(h, "/") {
			for n := range p.Harness {
				if strings.HasSuffix(n, "."+h) {
					name = n
				}
			}
		}
		res, err := sym.Explore(p, name, sym.ExploreOpts{Workers: *workers, MaxPaths: *maxPaths, Progress: *verbose,
			Cfg: sym.Config{SolverKind: *solver, SolverTimeout: *timeout, Params: pm}})
		if err != nil {
			fmt.Fprintln(os.Stderr, "error:", err)
			os.Exit(2)
		}
		fmt.Printf("== %s: paths=%d infeasible=%d steps=%d forks=%d wall=%v solver={sat %d unsat %d unknown %d err %d time %v}\n",
			name, res.Paths, res.Infeasible, res.Steps, res.Forks, res.Wall.Round(time.Millisecond),
			res.Solver.Sat, res.Solver.Unsat, res.Solver.Unknown, res.Solver.Errors, res.Solver.Time.Round(time.Millisecond))
		fmt.Printf("   ends=%v\n   marks=%v\n   obligations=%v\n", res.Ends, res.Marks, res.Obligations)
		for _, m := range res.EngineErrors {
			fmt.Println("   ENGINE:", m)
		}
		for _, m := range res.Unwinds {
			fmt.Println("   UNWIND:", m)
		}
		for _, f := range res.Findings {
			b, _ := json.Marshal(f.Model)
			fmt.Printf("   FINDING kind=%s label=%s class=%s unknown=%v msg=%s model=%s\n      stack=%v\n", f.Kind, f.Label, f.Class, f.Unknown, f.Msg, b, f.Stack)
		}
		if *verbose {
			fmt.Println("   fork sites:", res.ForkSites)
			for _, s := range res.Samples {
				b, _ := json.Marshal(s)
				fmt.Println("   SAMPLE", string(b))
			}
			var fns []string
			for f := range res.Functions {
				fns = append(fns, f)
			}
			sort.Strings(fns)
			fmt.Println("   functions:", strings.Join(fns, ", "))
		}
	}
}

func selftestMain() int {
	p, err := loadProgram()
	if err != nil {
		fmt.Fprintln(os.Stderr, "selftest: load:", err)
		return 2
	}
	fmt.Printf("selftest: loaded %d harnesses in %.1fs\n", len(p.Harness), p.LoadTime)
	return 0
}
