package main

import (
	"encoding/json"
	"fmt"
	"os"
	"time"

	"crdverif/sym"
)

// replayMain re-runs a recorded counterexample natively against /repo's current tree.
func replayMain(args []string) int {
	if len(args) != 1 {
		fmt.Fprintln(os.Stderr, "usage: crdverif replay <file>")
		return 2
	}
	b, err := os.ReadFile(args[0])
	if err != nil {
		fmt.Fprintln(os.Stderr, err)
		return 2
	}
	var rf struct {
		Property string            `json:"property"`
		Harness  string            `json:"harness"`
		Kind     string            `json:"kind"`
		Label    string            `json:"label"`
		Inputs   map[string]string `json:"inputs"`
		Params   map[string]int    `json:"params"`
	}
	if err := json.Unmarshal(b, &rf); err != nil {
		fmt.Fprintln(os.Stderr, err)
		return 2
	}
	prog, err := loadProgram()
	if err != nil {
		fmt.Fprintln(os.Stderr, "load:", err)
		return 2
	}
	rp, err := newReplayer(prog)
	if err != nil {
		fmt.Fprintln(os.Stderr, err)
		return 2
	}
	defer rp.close()
	nr, err := rp.run(rf.Harness, rf.Inputs, rf.Params, 30*time.Second)
	if err != nil {
		fmt.Fprintln(os.Stderr, err)
		return 2
	}
	fmt.Print(nr.Output)
	if confirms(sym.Finding{Kind: rf.Kind, Label: rf.Label}, nr) {
		fmt.Printf("REPRODUCED property=%s harness=%s kind=%s label=%s\n", rf.Property, rf.Harness, rf.Kind, rf.Label)
		return 1
	}
	fmt.Printf("NOT-REPRODUCED property=%s harness=%s kind=%s label=%s\n", rf.Property, rf.Harness, rf.Kind, rf.Label)
	return 0
}
