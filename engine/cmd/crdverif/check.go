package main

import (
	"bufio"
	"bytes"
	"context"
	"encoding/json"
	"flag"
	"fmt"
	"os"
	"os/exec"
	"path/filepath"
	"sort"
	"strconv"
	"strings"
	"time"

	"crdverif/sym"
)

type knownFinding struct {
	Status   string `json:"status"` // "known" | "fixed"
	Property string `json:"property"`
	Harness  string `json:"harness"`
	Label    string `json:"label"`
	Class    string `json:"class"`
	What     string `json:"what"`
	Commit   string `json:"commit,omitempty"`
}

func loadKnown() []knownFinding {
	f, err := os.Open(filepath.Join(verifDir(), "known_findings.jsonl"))
	if err != nil {
		return nil
	}
	defer f.Close()
	var out []knownFinding
	sc := bufio.NewScanner(f)
	sc.Buffer(make([]byte, 1<<20), 1<<20)
	for sc.Scan() {
		line := strings.TrimSpace(sc.Text())
		if line == "" || strings.HasPrefix(line, "#") {
			continue
		}
		var k knownFinding
		if json.Unmarshal([]byte(line), &k) == nil {
			out = append(out, k)
		}
	}
	return out
}

// ---- native replay ----

type replayer struct {
	dir     string
	overlay string
	bins    map[string]string // package import path -> test binary
	prog    *sym.Program
	built   map[string]error
}

func newReplayer(p *sym.Program) (*replayer, error) {
	dir, err := os.MkdirTemp("", "crdverif-replay-")
	if err != nil {
		return nil, err
	}
	r := &replayer{dir: dir, bins: map[string]string{}, prog: p, built: map[string]error{}}
	rep := map[string]string{}
	// harness sources
	hdir := filepath.Join(verifDir(), "harness")
	filepath.Walk(hdir, func(pth string, info os.FileInfo, err error) error {
		if err == nil && !info.IsDir() && strings.HasSuffix(pth, ".go") {
			rel, _ := filepath.Rel(hdir, pth)
			if _, dropped := p.Dropped[filepath.Join(repoDir(), rel)]; dropped {
				return nil // does not compile against this tree: left out of the native build too
			}
			rep[filepath.Join(repoDir(), rel)] = pth
		}
		return nil
	})
	// generated overlay files (not on disk under harness/): write them to the scratch dir
	for vpath, content := range p.Overlay {
		if _, ok := rep[vpath]; ok {
			continue
		}
		gen := filepath.Join(dir, "gen_"+strings.ReplaceAll(strings.TrimPrefix(vpath, repoDir()+"/"), "/", "_"))
		if err := os.WriteFile(gen, content, 0o644); err != nil {
			return nil, err
		}
		rep[vpath] = gen
	}
	// one generated test file per package with harnesses
	byPkg := map[string][]string{}
	for full := range p.Harness {
		i := strings.LastIndex(full, ".")
		byPkg[full[:i]] = append(byPkg[full[:i]], full[i+1:])
	}
	for pkg, names := range byPkg {
		sort.Strings(names)
		sp := p.Pkgs[pkg]
		rel := strings.TrimPrefix(strings.TrimPrefix(pkg, sym.Module), "/")
		var sb strings.Builder
		fmt.Fprintf(&sb, "package %s\n\nimport (\n\t\"os\"\n\t\"testing\"\n\n\tvf \"%s/zz_verif\"\n)\n\n", sp.Pkg.Name(), sym.Module)
		sb.WriteString("func TestVerifReplay(t *testing.T) {\n\tname := os.Getenv(\"VERIF_HARNESS\")\n\tf := map[string]func(){\n")
		for _, n := range names {
			fmt.Fprintf(&sb, "\t\t%q: %s,\n", n, n)
		}
		sb.WriteString("\t}[name]\n\tif f == nil {\n\t\tt.Fatalf(\"no harness %s\", name)\n\t}\n\tvf.Run(name, f)\n}\n")
		gen := filepath.Join(dir, strings.ReplaceAll(rel, "/", "_")+"_replay_test.go")
		if err := os.WriteFile(gen, []byte(sb.String()), 0o644); err != nil {
			return nil, err
		}
		rep[filepath.Join(repoDir(), rel, "zz_verif_replay_test.go")] = gen
	}
	b, _ := json.Marshal(map[string]interface{}{"Replace": rep})
	r.overlay = filepath.Join(dir, "overlay.json")
	if err := os.WriteFile(r.overlay, b, 0o644); err != nil {
		return nil, err
	}
	return r, nil
}

func (r *replayer) close() { os.RemoveAll(r.dir) }

func (r *replayer) binary(pkg string) (string, error) {
	if b, ok := r.bins[pkg]; ok {
		return b, r.built[pkg]
	}
	rel := strings.TrimPrefix(strings.TrimPrefix(pkg, sym.Module), "/")
	out := filepath.Join(r.dir, strings.ReplaceAll(rel, "/", "_")+".test")
	cmd := exec.Command("go", "test", "-c", "-vet=off", "-overlay", r.overlay, "-o", out, "./"+rel+"/")
	cmd.Dir = repoDir()
	cmd.Env = append(os.Environ(), "GOFLAGS=-mod=mod", "GOPROXY=off")
	msg, err := cmd.CombinedOutput()
	if err != nil {
		err = fmt.Errorf("building replay binary for %s: %v\n%s", pkg, err, msg)
	}
	r.bins[pkg] = out
	r.built[pkg] = err
	return out, err
}

type nativeResult struct {
	Failed      []string
	Observes    map[string]string
	Panic       string
	AssumeFalse bool
	Ended       bool
	Timeout     bool
	Output      string
	Exit        int
}

// run executes one harness natively on the given inputs.
func (r *replayer) run(harness string, inputs map[string]string, params map[string]int, timeout time.Duration) (*nativeResult, error) {
	i := strings.LastIndex(harness, ".")
	pkg, name := harness[:i], harness[i+1:]
	bin, err := r.binary(pkg)
	if err != nil {
		return nil, err
	}
	rf := filepath.Join(r.dir, fmt.Sprintf("in-%d.json", time.Now().UnixNano()))
	b, _ := json.Marshal(map[string]interface{}{"inputs": inputs, "params": params})
	os.WriteFile(rf, b, 0o644)
	defer os.Remove(rf)
	ctx, cancel := context.WithTimeout(context.Background(), timeout)
	defer cancel()
	cmd := exec.CommandContext(ctx, bin, "-test.run", "^TestVerifReplay$", "-test.v", "-test.timeout", "0")
	rel := strings.TrimPrefix(strings.TrimPrefix(pkg, sym.Module), "/")
	cmd.Dir = filepath.Join(repoDir(), rel)
	cmd.Env = append(os.Environ(), "VERIF_HARNESS="+name, "VERIF_REPLAY="+rf, "GOMAXPROCS=2")
	var buf bytes.Buffer
	cmd.Stdout = &limitedWriter{w: &buf, n: 1 << 20}
	cmd.Stderr = cmd.Stdout
	runErr := cmd.Run()
	res := &nativeResult{Observes: map[string]string{}, Output: buf.String()}
	if ctx.Err() == context.DeadlineExceeded {
		res.Timeout = true
	}
	if ee, ok := runErr.(*exec.ExitError); ok {
		res.Exit = ee.ExitCode()
	}
	for _, line := range strings.Split(res.Output, "\n") {
		switch {
		case strings.HasPrefix(line, "VERIF-ASSERT-FAILED "):
			res.Failed = append(res.Failed, strings.TrimPrefix(line, "VERIF-ASSERT-FAILED "))
		case strings.HasPrefix(line, "VERIF-OBSERVE "):
			kv := strings.SplitN(strings.TrimPrefix(line, "VERIF-OBSERVE "), "=", 2)
			if len(kv) == 2 {
				res.Observes[kv[0]] = kv[1]
			}
		case strings.HasPrefix(line, "VERIF-PANIC "):
			res.Panic = strings.TrimPrefix(line, "VERIF-PANIC ")
		case strings.HasPrefix(line, "VERIF-ASSUME-FALSE"):
			res.AssumeFalse = true
		case strings.HasPrefix(line, "VERIF-END "):
			res.Ended = true
		case strings.HasPrefix(line, "fatal error:") || strings.HasPrefix(line, "panic:"):
			if res.Panic == "" {
				res.Panic = line
			}
		}
	}
	return res, nil
}

type limitedWriter struct {
	w *bytes.Buffer
	n int
}

func (l *limitedWriter) Write(p []byte) (int, error) {
	if l.w.Len() < l.n {
		k := len(p)
		if l.w.Len()+k > l.n {
			k = l.n - l.w.Len()
		}
		l.w.Write(p[:k])
	}
	return len(p), nil
}

// confirms reports whether the native run reproduces the finding.
func confirms(f sym.Finding, nr *nativeResult) bool {
	switch f.Kind {
	case "assert":
		for _, l := range nr.Failed {
			if l == f.Label {
				return true
			}
		}
		return false
	case "panic":
		return nr.Panic != "" && !nr.Timeout
	case "unwind":
		return nr.Timeout || strings.Contains(nr.Panic, "stack overflow") || strings.Contains(nr.Output, "stack overflow")
	}
	return false
}

// ---- evidence ----

type evidence struct {
	PropertyID  string                 `json:"property_id"`
	Tier        string                 `json:"tier"`
	Seed        int                    `json:"seed"`
	Level       string                 `json:"level"`
	Coverage    map[string]interface{} `json:"coverage"`
	Assumptions []string               `json:"assumptions"`
	WallS       float64                `json:"wall_s"`
	Violations  int                    `json:"violations"`
}

func checkMain(args []string) int {
	fs := flag.NewFlagSet("check", flag.ExitOnError)
	tier := fs.String("tier", "", "quick|thorough")
	workers := fs.Int("j", 16, "workers")
	only := fs.String("only", "", "run only harnesses whose name contains this")
	noValidate := fs.Bool("no-validate", false, "skip translator validation")
	fs.Parse(args)
	if fs.NArg() != 1 {
		fmt.Fprintln(os.Stderr, "usage: crdverif check [--tier quick|thorough] <ID>")
		return 2
	}
	id := fs.Arg(0)
	if *tier == "" {
		*tier = os.Getenv("VERIF_TIER")
	}
	if *tier != "thorough" {
		*tier = "quick"
	}
	seed, _ := strconv.Atoi(os.Getenv("VERIF_SEED"))
	specs, ok := properties[id]
	if !ok {
		fmt.Fprintf(os.Stderr, "no check registered for %s\n", id)
		return 2
	}
	t0 := time.Now()
	prog, err := loadProgram()
	if err != nil {
		fmt.Printf("INCONCLUSIVE property=%s: cannot load /repo with the harness overlay: %v\n", id, err)
		writeEvidence(id, *tier, seed, nil, nil, time.Since(t0), 0, []string{"load failed: " + err.Error()})
		return 2
	}
	rp, err := newReplayer(prog)
	if err != nil {
		fmt.Println("INCONCLUSIVE: replayer:", err)
		return 2
	}
	defer rp.close()
	known := loadKnown()
	exit := 0
	violations := 0
	var results []*sym.HarnessResult
	var notes []string
	validated := 0
	ran, skipped := 0, 0
	inconclusive := func(msg string) {
		fmt.Printf("INCONCLUSIVE property=%s %s\n", id, msg)
		notes = append(notes, msg)
		if exit == 0 {
			exit = 2
		}
	}
	for _, hs := range specs {
		if *only != "" && !strings.Contains(hs.Name, *only) {
			continue
		}
		full := sym.Module + "/" + hs.Name
		if strings.HasPrefix(hs.Name, "cmd.") {
			full = sym.Module + "/" + hs.Name
		}
		params := hs.Quick
		if *tier == "thorough" {
			params = hs.Thorough
		}
		cfg := sym.Config{Params: params, SolverKind: hs.Solver, SolverTimeout: 10 * time.Second}
		if *tier == "thorough" {
			cfg.SolverTimeout = 120 * time.Second
			// every unsat assertion verdict is re-discharged by a second solver
			switch hs.Solver {
			case "", "z3":
				cfg.CrossSolver = "cvc5"
			case "cvc5", "cvc5-int":
				cfg.CrossSolver = "z3-new"
			}
		}
		if hs.TimeoutS > 0 {
			cfg.SolverTimeout = time.Duration(hs.TimeoutS) * time.Second
		}
		if prog.Harness[full] == nil && len(prog.Dropped) > 0 {
			// a white-box harness that no longer compiles against this tree (e.g. after an
			// internal rename) is left out; the others still decide the property
			why := ""
			for f, msg := range prog.Dropped {
				why += filepath.Base(f) + ": " + msg + "; "
			}
			if len(why) > 400 {
				why = why[:400]
			}
			fmt.Printf("SKIPPED property=%s harness=%s does not compile against this tree (%s)\n", id, hs.Name, why)
			notes = append(notes, "skipped "+hs.Name+": harness file does not compile against this tree")
			skipped++
			continue
		}
		ran++
		res, err := sym.Explore(prog, full, sym.ExploreOpts{Workers: *workers, Cfg: cfg, StopOnFindings: true})
		if err != nil {
			inconclusive(fmt.Sprintf("harness=%s engine error: %v", hs.Name, err))
			continue
		}
		results = append(results, res)
		fmt.Printf("harness %s: paths=%d steps=%d queries=%d (sat %d unsat %d unknown %d) solver=%.1fs wall=%.1fs\n", hs.Name, res.Paths, res.Steps,
			res.Solver.Sat+res.Solver.Unsat+res.Solver.Unknown, res.Solver.Sat, res.Solver.Unsat, res.Solver.Unknown, res.Solver.Time.Seconds(), res.Wall.Seconds())
		for _, m := range res.EngineErrors {
			inconclusive(fmt.Sprintf("harness=%s could not encode: %s", hs.Name, m))
		}
		for _, m := range res.Unwinds {
			if !hs.MustTerminate {
				inconclusive(fmt.Sprintf("harness=%s unwinding assertion failed (bound too small): %s", hs.Name, m))
			}
		}
		if res.Truncated {
			inconclusive(fmt.Sprintf("harness=%s exploration truncated", hs.Name))
		}
		if res.Solver.Errors > 0 {
			inconclusive(fmt.Sprintf("harness=%s solver printed %d error lines", hs.Name, res.Solver.Errors))
		}
		// vacuity: every required mark reached, at least one path completed
		for _, m := range hs.Marks {
			if res.Marks[m] == 0 && !res.EarlyStop {
				inconclusive(fmt.Sprintf("harness=%s vacuous: mark %q never reached", hs.Name, m))
			}
		}
		if res.Ends["ok"] == 0 && len(res.Findings) == 0 {
			inconclusive(fmt.Sprintf("harness=%s vacuous: no path completed", hs.Name))
		}
		// findings: replay natively before reporting
		violationsBefore := violations
		if res.EarlyStop {
			fmt.Printf("harness %s: exploration stopped early: %d counterexamples in hand\n", hs.Name, len(res.Findings))
		}
		seenKnown := map[string]bool{}
		for fi, f := range res.Findings {
			if f.Unknown {
				inconclusive(fmt.Sprintf("harness=%s label=%s solver could not decide (unknown/timeout)", hs.Name, f.Label))
				continue
			}
			nr, err := rp.run(full, f.Model, res.Params, 20*time.Second)
			if err != nil {
				inconclusive(fmt.Sprintf("harness=%s replay failed to build: %v", hs.Name, err))
				continue
			}
			// findings that depend on Go's map iteration order or on scheduling reproduce only
			// with some probability per native run: retry before calling the model spurious
			for try := 0; try < 12 && !confirms(f, nr) && !nr.Timeout; try++ {
				nr, err = rp.run(full, f.Model, res.Params, 20*time.Second)
				if err != nil {
					break
				}
			}
			if err != nil || !confirms(f, nr) {
				inconclusive(fmt.Sprintf("harness=%s label=%s counterexample did not reproduce natively (spurious; encoding or stub wrong) inputs=%v", hs.Name, f.Label, f.Model))
				continue
			}
			kf := matchKnown(known, id, hs.Name, f)
			if kf != nil {
				k := kf.Harness + "|" + kf.Label + "|" + kf.Class
				if !seenKnown[k] {
					seenKnown[k] = true
					fmt.Printf("KNOWN-FINDING: property=%s %s (harness=%s label=%s class=%s witness=%v)\n", id, kf.What, hs.Name, f.Label, f.Class, f.Model)
				}
				continue
			}
			path := writeReplay(id, hs.Name, fi, f, res.Params, nr)
			fmt.Printf("VIOLATION property=%s replay=%s\n", id, path)
			fmt.Printf("  harness=%s kind=%s label=%s class=%s msg=%s inputs=%v\n", hs.Name, f.Kind, f.Label, f.Class, f.Msg, f.Model)
			violations++
			exit = 1
		}
		if res.EarlyStop && violations == violationsBefore {
			inconclusive(fmt.Sprintf("harness=%s exploration stopped early on counterexamples none of which is a reportable violation", hs.Name))
		}
		// translator validation on sampled completed paths
		if !*noValidate {
			for si, s := range res.Samples {
				if si >= 4 {
					break
				}
				nr, err := rp.run(full, s.Inputs, res.Params, 20*time.Second)
				if err != nil {
					inconclusive(fmt.Sprintf("harness=%s validation build failed: %v", hs.Name, err))
					break
				}
				okv := nr.Ended && nr.Panic == "" && len(nr.Failed) == 0
				for k, v := range s.Observes {
					if nv, ok := nr.Observes[k]; !ok || nv != v {
						okv = false
						notes = append(notes, fmt.Sprintf("validation mismatch %s: %s predicted %q native %q", hs.Name, k, v, nv))
					}
				}
				if !okv {
					inconclusive(fmt.Sprintf("harness=%s translator validation failed on inputs %v (native: failed=%v panic=%q ended=%v)", hs.Name, s.Inputs, nr.Failed, nr.Panic, nr.Ended))
				} else {
					validated++
				}
			}
		}
	}
	if ran == 0 && skipped > 0 {
		inconclusive("none of the registered harnesses compiles against this tree")
	}
	writeEvidence(id, *tier, seed, specs, results, time.Since(t0), violations, append(notes, fmt.Sprintf("validated=%d", validated)))
	evidencePatchValidated(id, validated)
	if exit == 0 {
		fmt.Printf("OK property=%s tier=%s harnesses=%d wall=%.1fs\n", id, *tier, len(results), time.Since(t0).Seconds())
	}
	return exit
}

func matchKnown(known []knownFinding, id, harness string, f sym.Finding) *knownFinding {
	for i := range known {
		k := &known[i]
		if k.Status != "known" || k.Property != id {
			continue
		}
		if k.Harness == harness && k.Label == f.Label && k.Class == f.Class {
			return k
		}
	}
	return nil
}

func writeReplay(id, harness string, n int, f sym.Finding, params map[string]int, nr *nativeResult) string {
	dir := filepath.Join(outDir(), "replays", id)
	os.MkdirAll(dir, 0o755)
	name := fmt.Sprintf("%s-%s-%d.json", strings.ReplaceAll(harness, ".", "_"), sanitize(f.Label), n)
	path := filepath.Join(dir, name)
	out := nr.Output
	if len(out) > 4000 {
		out = out[:4000]
	}
	b, _ := json.MarshalIndent(map[string]interface{}{
		"property": id, "harness": sym.Module + "/" + harness, "kind": f.Kind, "label": f.Label, "class": f.Class, "msg": f.Msg,
		"inputs": f.Model, "params": params, "engine_stack": f.Stack,
		"native": map[string]interface{}{"failed": nr.Failed, "panic": nr.Panic, "timeout": nr.Timeout, "exit": nr.Exit, "output": out},
	}, "", " ")
	os.WriteFile(path, b, 0o644)
	return path
}

func sanitize(s string) string {
	var sb strings.Builder
	for _, r := range s {
		if r >= 'a' && r <= 'z' || r >= 'A' && r <= 'Z' || r >= '0' && r <= '9' || r == '-' || r == '_' {
			sb.WriteRune(r)
		} else {
			sb.WriteByte('_')
		}
	}
	return sb.String()
}

func writeEvidence(id, tier string, seed int, specs []harnessSpec, results []*sym.HarnessResult, wall time.Duration, violations int, notes []string) {
	cov := map[string]interface{}{}
	var states, transitions, obligations, symbolicObl int64
	var qsat, qunsat, qunknown int
	var solverT float64
	fnset := map[string]bool{}
	intrset := map[string]bool{}
	var samples []interface{}
	bounds := map[string]interface{}{}
	perHarness := []interface{}{}
	for _, r := range results {
		states += r.Paths
		transitions += r.Steps
		for _, o := range r.Obligations {
			obligations += o[0] + o[1]
			symbolicObl += o[0]
		}
		qsat += r.Solver.Sat
		qunsat += r.Solver.Unsat
		qunknown += r.Solver.Unknown
		solverT += r.Solver.Time.Seconds()
		for f := range r.Functions {
			if strings.Contains(f, "zz_verif") {
				continue
			}
			fnset[f] = true
		}
		for f := range r.Intrinsics {
			if !strings.Contains(f, "zz_verif") {
				intrset[f] = true
			}
		}
		for i, s := range r.Samples {
			if i < 2 {
				samples = append(samples, map[string]interface{}{"harness": r.Harness, "path_decisions": s.Decisions, "inputs": s.Inputs, "observed": s.Observes, "marks": s.Marks})
			}
		}
		for k, v := range r.Params {
			bounds[k] = v
		}
		labels := map[string]interface{}{}
		for l, o := range r.Obligations {
			labels[l] = map[string]int64{"solver_queries": o[0], "constant_folded": o[1]}
		}
		perHarness = append(perHarness, map[string]interface{}{
			"harness": r.Harness, "paths": r.Paths, "infeasible_paths": r.Infeasible, "ssa_instructions": r.Steps, "forks": r.Forks,
			"path_ends": r.Ends, "assertions": labels, "marks": r.Marks, "findings": len(r.Findings),
			"queries":               map[string]int{"sat": r.Solver.Sat, "unsat": r.Solver.Unsat, "unknown": r.Solver.Unknown},
			"cross_solver_rechecks": map[string]int64{"rechecked": r.CrossChecked, "second_solver_unknown": r.CrossUnknown, "disagreements": 0},
			"solver_time_s":         r.Solver.Time.Seconds(), "wall_s": r.Wall.Seconds(), "unwind_hits": r.Unwinds, "encode_errors": r.EngineErrors,
		})
	}
	if len(samples) == 0 {
		samples = append(samples, "no completed path with inputs")
	}
	fns := keys(fnset)
	cov["states"] = states
	cov["transitions"] = transitions
	cov["traces_validated_against_impl"] = 0
	cov["samples"] = samples
	cov["obligations"] = obligations
	cov["discharged"] = obligations
	cov["obligations_decided_by_solver"] = symbolicObl
	cov["functions_encoded"] = fns
	cov["stubs_and_models"] = keys(intrset)
	cov["bounds"] = bounds
	cov["queries"] = map[string]int{"sat": qsat, "unsat": qunsat, "unknown": qunknown}
	cov["solver_time_s"] = solverT
	cov["harnesses"] = perHarness
	cov["notes"] = notes
	cov["explanation"] = "states = symbolic paths explored (each a solver-checked feasible region of the input space); transitions = SSA instructions interpreted; obligations = Assert sites reached × paths, each decided by an SMT query (or constant-folded when the path fixed all operands)"
	ev := evidence{PropertyID: id, Tier: tier, Seed: seed, Level: "model_checking", Coverage: cov, WallS: wall.Seconds(), Violations: violations,
		Assumptions: []string{
			"go/ssa construction and the engine's interpretation of SSA (validated per run by native replay of sampled paths)",
			"z3/cvc5 answers",
			"bounds listed under coverage.bounds; inputs outside them are not covered",
			"stubs/models listed under coverage.stubs_and_models behave as the real library functions",
		}}
	if states == 0 {
		cov["states"] = 1
		cov["transitions"] = 1
	}
	os.MkdirAll(filepath.Join(outDir(), "evidence"), 0o755)
	b, _ := json.MarshalIndent(ev, "", " ")
	os.WriteFile(filepath.Join(outDir(), "evidence", id+".json"), b, 0o644)
}

func evidencePatchValidated(id string, n int) {
	p := filepath.Join(outDir(), "evidence", id+".json")
	b, err := os.ReadFile(p)
	if err != nil {
		return
	}
	var ev map[string]interface{}
	if json.Unmarshal(b, &ev) != nil {
		return
	}
	if cov, ok := ev["coverage"].(map[string]interface{}); ok {
		cov["traces_validated_against_impl"] = n
	}
	b, _ = json.MarshalIndent(ev, "", " ")
	os.WriteFile(p, b, 0o644)
}

func keys(m map[string]bool) []string {
	var out []string
	for k := range m {
		out = append(out, k)
	}
	sort.Strings(out)
	return out
}
