package main

import (
	"encoding/json"
	"fmt"
	"os"
	"sort"
)

type propText struct {
	Level     string // claimed level text
	Note      string // trusted base / assumptions
	Technique string
	Design    string
}

var propTexts = map[string]propText{}

var notApplicable = map[string]string{}

func manifestMain() {
	ids := []string{}
	for id := range properties {
		ids = append(ids, id)
	}
	sort.Strings(ids)
	var checks []map[string]interface{}
	for _, id := range ids {
		pt := propTexts[id]
		if pt.Technique == "" {
			pt.Technique = "bounded symbolic execution of the real functions (go/ssa -> SMT-LIB2, z3/cvc5), counterexamples replayed natively"
		}
		if pt.Level == "" {
			pt.Level = "Every Assert of the harnesses is decided by the SMT solver for all inputs inside the stated bounds; outside the bounds nothing is claimed."
		}
		if pt.Note == "" {
			pt.Note = "Trusted: go/ssa, the engine's SSA interpretation (validated per run by native replay of sampled paths), z3/cvc5, the listed stubs/models, the reference definitions in harness/zz_verif/spec."
		}
		checks = append(checks, map[string]interface{}{
			"property_id":         id,
			"quick_cmd":           fmt.Sprintf("/verif/bin/crdverif check --tier quick %s", id),
			"thorough_cmd":        fmt.Sprintf("/verif/bin/crdverif check --tier thorough %s", id),
			"evidence_file":       fmt.Sprintf("/verif/evidence/%s.json", id),
			"replay_cmd_template": "/verif/bin/crdverif replay {path}",
			"engine":              "symgo",
			"level_claimed":       map[string]string{"category": "model_checking", "text": pt.Level, "design_ref": pt.Design},
			"level_note":          pt.Note,
			"technique":           pt.Technique,
		})
	}
	na := []map[string]string{}
	var naIDs []string
	for id := range notApplicable {
		if _, claimed := properties[id]; !claimed {
			naIDs = append(naIDs, id)
		}
	}
	sort.Strings(naIDs)
	for _, id := range naIDs {
		na = append(na, map[string]string{"property_id": id, "reason": notApplicable[id]})
	}
	m := map[string]interface{}{
		"version":   1,
		"setup_cmd": "cd /verif/engine && GOFLAGS=-mod=mod GOPROXY=off go build -o /verif/bin/crdverif ./cmd/crdverif && /verif/bin/crdverif selftest",
		"hooks": map[string]interface{}{
			"guard":            "verif",
			"enable":           "none needed: harness files and the helper packages zz_verif, zz_verif/spec, zz_verif/models enter /repo's build through go/packages and `go test -overlay` overlays; no file under /repo is written",
			"baseline_off_cmd": "cd /repo && GOFLAGS=-mod=mod GOPROXY=off go test -json -vet=off -count=1 -timeout 25m ./...",
			"source_commits":   []string{},
			"add_only":         true,
		},
		"engines": []map[string]interface{}{{
			"name": "symgo", "path": "/verif/engine", "serves_properties": ids,
			"kind_free_text": "symbolic executor for go/ssa written for this task: Go values are SMT-LIB2 terms (64/32/8-bit bit-vectors, Bool, Float64), branches on symbolic conditions are decided by z3 (cvc5 for floating point) and forked, assertions are discharged as unsat queries, counterexample models are replayed against the native build with go test -overlay",
		}},
		"checks":         checks,
		"not_applicable": na,
		"notes":          "Exit codes of every command: 0 all obligations discharged inside the bounds (KNOWN-FINDING lines possible), 1 replay-confirmed violation (VIOLATION line), 2 the check could not decide (encoding error, solver unknown, failed unwinding assertion, spurious counterexample). See DESIGN.md.",
	}
	b, _ := json.MarshalIndent(m, "", " ")
	os.Stdout.Write(b)
	fmt.Println()
}
