package main

import (
	"fmt"
	"os"
	"path/filepath"
	"strings"
)

// genGrammar reads input/ast/chords.y and renders it as Go data for the reference
// recogniser of the C04 harness (overlay only). The reader knows yacc's rule syntax,
// nothing about goyacc's tables.
func genGrammar(repo string) ([]byte, error) {
	src, err := os.ReadFile(filepath.Join(repo, "input/ast/chords.y"))
	if err != nil {
		return nil, err
	}
	parts := strings.SplitN(string(src), "\n%%", 3)
	if len(parts) < 2 {
		return nil, fmt.Errorf("chords.y: no rules section")
	}
	tokens := []string{}
	isTok := map[string]bool{}
	for _, line := range strings.Split(parts[0], "\n") {
		f := strings.Fields(line)
		if len(f) >= 2 && f[0] == "%token" {
			for _, t := range f[1:] {
				if strings.HasPrefix(t, "<") {
					continue
				}
				if !isTok[t] {
					isTok[t] = true
					tokens = append(tokens, t)
				}
			}
		}
	}
	// tokenise the rules section: identifiers, ':', '|', ';', skipping {...} actions and comments
	rulesSrc := parts[1]
	var toks []string
	for i := 0; i < len(rulesSrc); {
		c := rulesSrc[i]
		switch {
		case c == '{':
			depth := 0
			for ; i < len(rulesSrc); i++ {
				if rulesSrc[i] == '{' {
					depth++
				} else if rulesSrc[i] == '}' {
					depth--
					if depth == 0 {
						i++
						break
					}
				}
			}
			toks = append(toks, "{}")
		case c == '/' && i+1 < len(rulesSrc) && rulesSrc[i+1] == '/':
			for i < len(rulesSrc) && rulesSrc[i] != '\n' {
				i++
			}
		case c == '/' && i+1 < len(rulesSrc) && rulesSrc[i+1] == '*':
			j := strings.Index(rulesSrc[i+2:], "*/")
			if j < 0 {
				i = len(rulesSrc)
			} else {
				i += j + 4
			}
		case c == ':' || c == '|' || c == ';':
			toks = append(toks, string(c))
			i++
		case c == '\'':
			return nil, fmt.Errorf("chords.y: character literals are not supported by the reference reader")
		case c == '%':
			return nil, fmt.Errorf("chords.y: %%-directives inside rules (%%prec etc.) are not supported by the reference reader")
		case c == '_' || c >= 'a' && c <= 'z' || c >= 'A' && c <= 'Z':
			j := i
			for j < len(rulesSrc) && (rulesSrc[j] == '_' || rulesSrc[j] >= 'a' && rulesSrc[j] <= 'z' || rulesSrc[j] >= 'A' && rulesSrc[j] <= 'Z' || rulesSrc[j] >= '0' && rulesSrc[j] <= '9') {
				j++
			}
			toks = append(toks, rulesSrc[i:j])
			i = j
		default:
			i++
		}
	}
	type rule struct {
		lhs string
		rhs []string
	}
	var rules []rule
	var nts []string
	ntIdx := map[string]int{}
	addNT := func(n string) {
		if _, ok := ntIdx[n]; !ok {
			ntIdx[n] = len(nts)
			nts = append(nts, n)
		}
	}
	for i := 0; i < len(toks); {
		// lhs ':' alt ('|' alt)* [';']
		if i+1 >= len(toks) || toks[i+1] != ":" {
			return nil, fmt.Errorf("chords.y: expected rule head at token %d (%q)", i, toks[i])
		}
		lhs := toks[i]
		addNT(lhs)
		i += 2
		cur := []string{}
		for i < len(toks) {
			t := toks[i]
			if t == "{}" {
				i++
				continue
			}
			if t == "|" {
				rules = append(rules, rule{lhs, cur})
				cur = []string{}
				i++
				continue
			}
			if t == ";" {
				i++
				break
			}
			if i+1 < len(toks) && toks[i+1] == ":" {
				break // next rule head
			}
			cur = append(cur, t)
			i++
		}
		rules = append(rules, rule{lhs, cur})
	}
	var sb strings.Builder
	sb.WriteString("// Code generated from chords.y by crdverif (overlay only). DO NOT EDIT.\n\npackage ast\n\n")
	sb.WriteString("// nonterminal n is encoded as -(n+1); terminals are their token constants\n")
	sb.WriteString("var verifGrammarRules = [][]int{\n")
	for _, r := range rules {
		fmt.Fprintf(&sb, "\t{%d", -(ntIdx[r.lhs] + 1))
		for _, s := range r.rhs {
			if isTok[s] {
				fmt.Fprintf(&sb, ", %s", s)
			} else if k, ok := ntIdx[s]; ok {
				fmt.Fprintf(&sb, ", %d", -(k + 1))
			} else {
				return nil, fmt.Errorf("chords.y: symbol %q is neither a token nor a rule", s)
			}
		}
		fmt.Fprintf(&sb, "}, // %s: %s\n", r.lhs, strings.Join(r.rhs, " "))
	}
	sb.WriteString("}\n\nvar verifGrammarStart = -1\n\nvar verifGrammarTokens = []int{")
	sb.WriteString(strings.Join(tokens, ", "))
	sb.WriteString("}\n\nvar verifGrammarTokenNames = []string{")
	for i, t := range tokens {
		if i > 0 {
			sb.WriteString(", ")
		}
		fmt.Fprintf(&sb, "%q", t)
	}
	sb.WriteString("}\n")
	return []byte(sb.String()), nil
}
