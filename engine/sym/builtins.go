package sym

import (
	"fmt"
	"go/types"

	"golang.org/x/tools/go/ssa"
)

func (e *Engine) callBuiltin(b *ssa.Builtin, args []Value, site ssa.CallInstruction) Value {
	switch b.Name() {
	case "len":
		switch x := args[0].(type) {
		case string:
			return int64(len(x))
		case *SymStr:
			return int64(len(x.b))
		case sliceV:
			return int64(len(x.a))
		case arrayV:
			return int64(len(x))
		case *Value:
			return int64(len((*x).(arrayV)))
		case *mapObj:
			if x == nil {
				return int64(0)
			}
			if !x.allKeysConcrete() {
				e.abort(abortEngine, "len of a map with symbolic keys")
			}
			return int64(len(x.entries))
		case *chanObj:
			return int64(len(x.buf))
		}
	case "cap":
		switch x := args[0].(type) {
		case sliceV:
			return int64(cap(x.a))
		case arrayV:
			return int64(len(x))
		case *Value:
			return int64(len((*x).(arrayV)))
		case *chanObj:
			return int64(x.cap)
		}
	case "append":
		s := args[0].(sliceV)
		var add []Value
		switch y := args[1].(type) {
		case sliceV:
			add = y.a
		case string:
			for i := 0; i < len(y); i++ {
				add = append(add, uint64(y[i]))
			}
		case *SymStr:
			for _, t := range y.b {
				add = append(add, e.lower(t, types.Typ[types.Uint8]))
			}
		}
		if len(add) == 0 {
			return s
		}
		n := len(s.a)
		if n+len(add) <= cap(s.a) {
			// in place: writes beyond len are visible to aliases, so log them
			ext := s.a[:n+len(add)]
			for i, v := range add {
				e.set(&ext[n+i], copyVal(v))
			}
			return sliceV{a: ext}
		}
		// capacity growth follows the Go runtime (growslice + size classes), because whether a
		// later append writes in place — and so aliases an earlier slice — depends on it
		et0 := under(site.Value().Type()).(*types.Slice).Elem()
		nc := goGrowCap(cap(s.a), n+len(add), int(goSizes.Sizeof(et0)))
		na := make([]Value, n+len(add), nc)
		copy(na, s.a)
		for i, v := range add {
			na[n+i] = copyVal(v)
		}
		// the spare capacity must hold zero values of the element type
		if nc > len(na) {
			et := under(site.Value().Type()).(*types.Slice).Elem()
			full := na[:nc]
			for i := len(na); i < nc; i++ {
				full[i] = e.zero(et)
			}
		}
		return sliceV{a: na}
	case "copy":
		dst := args[0].(sliceV)
		var src []Value
		switch y := args[1].(type) {
		case sliceV:
			src = y.a
		case string:
			for i := 0; i < len(y); i++ {
				src = append(src, uint64(y[i]))
			}
		case *SymStr:
			for _, t := range y.b {
				src = append(src, e.lower(t, types.Typ[types.Uint8]))
			}
		}
		n := len(dst.a)
		if len(src) < n {
			n = len(src)
		}
		tmp := make([]Value, n)
		for i := 0; i < n; i++ {
			tmp[i] = copyVal(src[i])
		}
		for i := 0; i < n; i++ {
			e.set(&dst.a[i], tmp[i])
		}
		return int64(n)
	case "delete":
		e.mapDelete(args[0].(*mapObj), args[1])
		return nil
	case "close":
		e.chanClose(args[0].(*chanObj))
		return nil
	case "print", "println":
		return nil
	case "recover":
		return iface{}
	case "min", "max":
		t := site.Value().Type()
		res := args[0]
		for _, a := range args[1:] {
			var less Value
			if b.Name() == "min" {
				less = e.binop(tokenLSS, t, t, a, res)
			} else {
				less = e.binop(tokenLSS, t, t, res, a)
			}
			if lb, ok := less.(bool); ok {
				if lb {
					res = a
				}
				continue
			}
			if mergeable(t) {
				res = e.ite(e.liftBool(less), t, a, res)
			} else if e.branch(less) {
				res = a
			}
		}
		return res
	case "clear":
		switch x := args[0].(type) {
		case *mapObj:
			if x != nil {
				e.mapSetEntries(x, nil)
			}
		case sliceV:
			et := under(site.Common().Args[0].Type()).(*types.Slice).Elem()
			for i := range x.a {
				e.set(&x.a[i], e.zero(et))
			}
		}
		return nil
	case "ssa:wrapnilchk":
		if p, ok := args[0].(*Value); ok && p == nil {
			e.goPanic("value method called using nil pointer")
		}
		return args[0]
	case "ssa:deferstack":
		fr := e.stack[len(e.stack)-1]
		if fr.defers == nil {
			fr.defers = new([]deferred)
		}
		return &hostObj{tag: "deferstack", v: fr.defers}
	}
	panic(fmt.Sprintf("builtin %s on %T not supported", b.Name(), args[0]))
}

var goSizes = types.SizesFor("gc", "amd64")

var goSizeClasses = []int{0, 8, 16, 24, 32, 48, 64, 80, 96, 112, 128, 144, 160, 176, 192, 208, 224, 240, 256, 288, 320, 352, 384, 416, 448, 480, 512, 576, 640, 704, 768, 896, 1024, 1152, 1280, 1408, 1536, 1792, 2048, 2304, 2688, 3072, 3200, 3456, 4096, 4864, 5376, 6144, 6528, 6784, 6912, 8192, 9472, 9728, 10240, 10880, 12288, 13568, 14336, 16384, 18432, 19072, 20480, 21760, 24576, 27264, 28672, 32768}

// goGrowCap mirrors runtime.growslice's capacity computation (go1.24, 64-bit).
func goGrowCap(oldCap, newLen, elemSize int) int {
	newcap := newLen
	doublecap := oldCap + oldCap
	if newLen <= doublecap {
		const threshold = 256
		if oldCap < threshold {
			newcap = doublecap
		} else {
			newcap = oldCap
			for newcap < newLen {
				newcap += (newcap + 3*threshold) >> 2
			}
		}
	}
	if elemSize <= 0 {
		return newcap
	}
	mem := newcap * elemSize
	if mem <= 32768 {
		for _, c := range goSizeClasses {
			if c >= mem {
				mem = c
				break
			}
		}
	} else {
		mem = (mem + 8191) &^ 8191
	}
	return mem / elemSize
}
