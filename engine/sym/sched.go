package sym

import (
	"runtime"
)

// Cooperative goroutines: every interpreted goroutine runs on its own host goroutine but
// only the holder of the baton executes. Switching happens when a goroutine blocks, ends,
// or (in nondeterministic-schedule mode) at every channel operation.

type gor struct {
	id     int
	resume chan struct{}
	done   bool
	stack  []*frame
	depth  int
}

type schedState struct {
	gors      []*gor
	cur       *gor
	idle      int
	abort     *pathAbort
	hostPanic interface{}
	kill      bool
	nondet    bool
	spawnOnly bool // scheduling choices at goroutine starts only
	budget    int
	preempted int
}

func (e *Engine) sched() *schedState {
	s, _ := e.hostState["sched"].(*schedState)
	if s == nil {
		s = &schedState{}
		main := &gor{id: 0, resume: make(chan struct{}, 1)}
		s.gors = []*gor{main}
		s.cur = main
		s.nondet, _ = e.hostState["nondetSched"].(bool)
		s.spawnOnly, _ = e.hostState["spawnSched"].(bool)
		s.budget = 2
		if b, ok := e.hostState["preemptBudget"].(int); ok {
			s.budget = b
		}
		e.hostState["sched"] = s
	}
	return s
}

func (e *Engine) spawn(fn Value, args []Value) {
	s := e.sched()
	g := &gor{id: len(s.gors), resume: make(chan struct{}, 1)}
	s.gors = append(s.gors, g)
	go func() {
		<-g.resume
		if s.kill {
			return
		}
		defer func() {
			g.done = true
			if s.kill {
				return
			}
			if r := recover(); r != nil {
				if pa, ok := r.(pathAbort); ok {
					s.abort = &pa
				} else {
					s.hostPanic = r
				}
				// hand the baton to main so it can re-raise
				s.cur = s.gors[0]
				e.stack, e.depth = s.cur.stack, s.cur.depth
				s.cur.resume <- struct{}{}
				return
			}
			// normal end: pass the baton on
			nxt := e.pickNext(s, g)
			if nxt == nil {
				nxt = s.gors[0]
			}
			s.cur = nxt
			e.stack, e.depth = nxt.stack, nxt.depth
			nxt.resume <- struct{}{}
		}()
		e.call(fn, args, nil)
	}()
	if s.nondet || s.spawnOnly {
		e.schedPointAt(true)
	}
}

// pickNext returns another goroutine that is not finished (round robin), or nil.
func (e *Engine) pickNext(s *schedState, from *gor) *gor {
	n := len(s.gors)
	for k := 1; k <= n; k++ {
		g := s.gors[(from.id+k)%n]
		if g != from && !g.done {
			return g
		}
	}
	return nil
}

// switchTo passes the baton from the running goroutine to g and waits to be resumed.
func (e *Engine) switchTo(s *schedState, g *gor) {
	me := s.cur
	if g == me {
		return
	}
	me.stack, me.depth = e.stack, e.depth
	s.cur = g
	e.stack, e.depth = g.stack, g.depth
	g.resume <- struct{}{}
	<-me.resume
	if s.kill {
		runtime.Goexit()
	}
	if me.id == 0 {
		if s.abort != nil {
			pa := *s.abort
			s.abort = nil
			panic(pa)
		}
		if s.hostPanic != nil {
			hp := s.hostPanic
			s.hostPanic = nil
			panic(hp)
		}
	}
}

// yield is called by a goroutine that cannot make progress; false means nobody else can run.
func (e *Engine) yield() bool {
	s := e.sched()
	nxt := e.pickNext(s, s.cur)
	if nxt == nil {
		return false
	}
	s.idle++
	if s.idle > 4*len(s.gors)+4 {
		return false
	}
	e.switchTo(s, nxt)
	return true
}

// schedPoint is called after every successful channel operation.
func (e *Engine) schedPoint() { e.schedPointAt(false) }

func (e *Engine) schedPointAt(spawn bool) {
	s, _ := e.hostState["sched"].(*schedState)
	if s == nil {
		return
	}
	s.idle = 0
	if !s.nondet && !(spawn && s.spawnOnly) {
		return
	}
	var runnable []*gor
	for _, g := range s.gors {
		if !g.done {
			runnable = append(runnable, g)
		}
	}
	if len(runnable) < 2 {
		return
	}
	// preemption bounding: at most s.budget forced switches per path; switches at blocking
	// points are always explored (they are the only way to continue)
	if s.preempted >= s.budget {
		return
	}
	// order: current first so that decision 0 = keep running
	k := e.chooseFree(len(runnable))
	idx := 0
	for i, g := range runnable {
		if g == s.cur {
			idx = i
		}
	}
	pick := runnable[(idx+k)%len(runnable)]
	if pick != s.cur {
		s.preempted++
	}
	e.switchTo(s, pick)
}

// killGoroutines releases every parked host goroutine at the end of a path.
func (e *Engine) killGoroutines() {
	s, _ := e.hostState["sched"].(*schedState)
	if s == nil {
		return
	}
	s.kill = true
	for _, g := range s.gors[1:] {
		if !g.done {
			select {
			case g.resume <- struct{}{}:
			default:
			}
		}
	}
}
