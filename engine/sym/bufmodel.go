package sym

import (
	"fmt"
	"go/types"

	"crdverif/smt"

	"golang.org/x/tools/go/ssa"
)

// strings.Builder and bytes.Buffer are modelled as append-only byte sinks whose content
// lives in their own `buf` field (so writes are undo-logged like any other store).

func (e *Engine) bufField(p Value, what string) *Value {
	cell, ok := p.(*Value)
	if !ok || cell == nil {
		e.nilDeref()
	}
	sv := (*cell).(structV)
	// both types keep their bytes in a field called buf
	idx := -1
	switch what {
	case "strings.Builder":
		idx = 1
	case "bytes.Buffer":
		idx = 0
	}
	return &sv[idx]
}

func (e *Engine) bufAppend(f *Value, bs []Value) {
	cur, _ := (*f).(sliceV)
	n := make([]Value, 0, len(cur.a)+len(bs))
	n = append(n, cur.a...)
	n = append(n, bs...)
	e.set(f, sliceV{a: n})
}

func (e *Engine) strToByteVals(s Value) []Value {
	bt := types.Typ[types.Uint8]
	b := e.strBytes(s)
	out := make([]Value, len(b))
	for i, t := range b {
		out[i] = e.lower(t, bt)
	}
	return out
}

func (e *Engine) byteValsToStr(vs []Value) Value {
	bt := types.Typ[types.Uint8]
	ts := make([]*smt.Term, len(vs))
	for i, v := range vs {
		ts[i] = e.lift(v, bt)
	}
	return e.mkStr(ts)
}

func registerBufModels(e *Engine) {
	r := e.intr
	for _, kind := range []string{"strings.Builder", "bytes.Buffer"} {
		kind := kind
		pfx := "(*" + kind + ")."
		r[pfx+"WriteString"] = func(e *Engine, fr *frame, args []Value, site ssa.CallInstruction) Value {
			e.bufAppend(e.bufField(args[0], kind), e.strToByteVals(args[1]))
			return tuple{int64(strLen(args[1])), iface{}}
		}
		r[pfx+"Write"] = func(e *Engine, fr *frame, args []Value, site ssa.CallInstruction) Value {
			src := args[1].(sliceV).a
			cp := make([]Value, len(src))
			copy(cp, src)
			e.bufAppend(e.bufField(args[0], kind), cp)
			return tuple{int64(len(src)), iface{}}
		}
		r[pfx+"WriteByte"] = func(e *Engine, fr *frame, args []Value, site ssa.CallInstruction) Value {
			e.bufAppend(e.bufField(args[0], kind), []Value{args[1]})
			return iface{}
		}
		r[pfx+"WriteRune"] = func(e *Engine, fr *frame, args []Value, site ssa.CallInstruction) Value {
			s := e.runeToString(args[1], types.Typ[types.Int32])
			e.bufAppend(e.bufField(args[0], kind), e.strToByteVals(s))
			return tuple{int64(strLen(s)), iface{}}
		}
		r[pfx+"String"] = func(e *Engine, fr *frame, args []Value, site ssa.CallInstruction) Value {
			if p, ok := args[0].(*Value); ok && p == nil {
				return "<nil>"
			}
			cur, _ := (*e.bufField(args[0], kind)).(sliceV)
			return e.byteValsToStr(cur.a)
		}
		r[pfx+"Len"] = func(e *Engine, fr *frame, args []Value, site ssa.CallInstruction) Value {
			cur, _ := (*e.bufField(args[0], kind)).(sliceV)
			return int64(len(cur.a))
		}
		r[pfx+"Reset"] = func(e *Engine, fr *frame, args []Value, site ssa.CallInstruction) Value {
			e.set(e.bufField(args[0], kind), sliceV{nil: true})
			return nil
		}
	}
	r["(*bytes.Buffer).Bytes"] = func(e *Engine, fr *frame, args []Value, site ssa.CallInstruction) Value {
		cur, _ := (*e.bufField(args[0], "bytes.Buffer")).(sliceV)
		return cur
	}
	r["bytes.NewBuffer"] = func(e *Engine, fr *frame, args []Value, site ssa.CallInstruction) Value {
		bt := e.prog.Pkgs["bytes"].Type("Buffer").Type()
		cell := new(Value)
		*cell = e.zero(bt)
		src := args[0].(sliceV)
		cp := make([]Value, len(src.a))
		copy(cp, src.a)
		(*cell).(structV)[0] = sliceV{a: cp}
		return cell
	}
	r["bytes.NewBufferString"] = func(e *Engine, fr *frame, args []Value, site ssa.CallInstruction) Value {
		bt := e.prog.Pkgs["bytes"].Type("Buffer").Type()
		cell := new(Value)
		*cell = e.zero(bt)
		(*cell).(structV)[0] = sliceV{a: e.strToByteVals(args[0])}
		return cell
	}
	// fmt.Fprintf / Fprint / Fprintln onto any writer: format here, then call its Write method
	fprint := func(mk func(e *Engine, args []Value) Value) intrinsic {
		return func(e *Engine, fr *frame, args []Value, site ssa.CallInstruction) Value {
			w := args[0].(iface)
			if w.t == nil {
				e.nilDeref()
			}
			s := mk(e, args[1:])
			m := e.findMethod(w.t, "Write")
			if m == nil {
				e.abort(abortEngine, fmt.Sprintf("Fprintf onto %v: no Write method", w.t))
			}
			res := e.call(m, []Value{w.v, sliceV{a: e.strToByteVals(s)}}, site)
			return res
		}
	}
	r["fmt.Fprintf"] = fprint(func(e *Engine, a []Value) Value {
		return e.sprintf(mustStr(e, a[0], "Fprintf format"), e.strSlice(a[1]))
	})
	r["fmt.Fprint"] = fprint(func(e *Engine, a []Value) Value {
		var out Value = ""
		for _, x := range e.strSlice(a[0]) {
			out = e.strCat(out, e.formatVerb('v', false, x))
		}
		return out
	})
	r["fmt.Fprintln"] = fprint(func(e *Engine, a []Value) Value {
		var out Value = ""
		for i, x := range e.strSlice(a[0]) {
			if i > 0 {
				out = e.strCat(out, " ")
			}
			out = e.strCat(out, e.formatVerb('v', false, x))
		}
		return e.strCat(out, "\n")
	})
}
