package sym

import (
	"fmt"
	"go/types"
	"sort"
	"strings"
	"time"

	"crdverif/smt"

	"golang.org/x/tools/go/ssa"
)

type abortKind int

const (
	abortInfeasible abortKind = iota // Assume(false) / no feasible alternative: path silently dropped
	abortPanic                       // Go-level panic: a finding
	abortUnwind                      // loop/recursion bound reached
	abortEngine                      // unsupported construct: inconclusive
	abortStop                        // harness asked to stop this path (normal end)
	abortExit                        // os.Exit
	abortBudget                      // step budget exhausted
)

type pathAbort struct {
	kind abortKind
	msg  string
}

type undoRec struct {
	p   *Value
	old Value
}

type mapUndo struct {
	m       *mapObj
	entries []mapEntry
}

type chanUndo struct {
	c      *chanObj
	buf    []Value
	closed bool
}

// Input is one nondeterministic input created on the current path.
type Input struct {
	Name string
	Term *smt.Term
	Type string // Go type name for replay decoding
}

type Observation struct {
	Name string
	Term *smt.Term // nil when concrete
	Conc string    // rendering when concrete
	Type string
}

// Finding is an assertion failure / panic / non-termination with a solver model.
type Finding struct {
	Kind    string // "assert", "panic", "unwind", "exit"
	Label   string
	Class   string
	Msg     string
	Model   map[string]string // input name -> decimal value
	Inputs  []string          // input names in creation order
	Path    []int
	Stack   []string
	Unknown bool // solver could not decide (inconclusive, not a violation)
}

type Config struct {
	Unwind         int // per (frame, block) visit limit
	MaxDepth       int // call depth limit
	StepBudget     int64
	SolverKind     string
	SolverTimeout  time.Duration
	NondetMapOrder bool
	Params         map[string]int
	CrossSolver    string // when set, unsat assertion verdicts are re-checked by this solver
}

// Engine is one worker: it owns a term context, a solver process and an interpreter heap.
type Engine struct {
	prog   *Program
	ctx    *smt.Ctx
	solver *smt.Solver
	cfg    Config

	globals map[*ssa.Global]*Value
	fninfo  map[*ssa.Function]*fnInfo
	intr    map[string]intrinsic

	undo     []undoRec
	mapUndo  []mapUndo
	chanUndo []chanUndo

	// per-path state
	pc              []*smt.Term
	asserted        int
	decisions       []int
	pos             int
	newWork         [][]int
	names           map[string]int
	inputs          []Input
	observes        []Observation
	marks           map[string]bool
	findings        []Finding
	depth           int
	steps           int64
	stack           []*frame
	unwind          int
	maxDepth        int
	mustTerm        bool
	mapOrder        bool
	classTag        string
	stdout          []Value
	stderrN         int
	exitCode        int
	exited          bool
	flags           map[string]Value
	files           map[string]Value
	stdin           Value
	hostState       map[string]interface{}
	assumptions     map[string]bool
	pathQueries     int
	retries         int
	initHost        map[string]interface{}
	bind            map[*smt.Term]*smt.Term
	substMemo       map[*smt.Term]*smt.Term
	usedParams      map[string]int
	oblig           map[string][2]int64
	summarise       map[string]bool
	summaries       map[string][]outcome
	auxSolvers      []*smt.Solver
	xsolver         *smt.Solver
	mergedDepth     int
	lastObligations map[string][2]int64

	// statistics (cumulative)
	Stats Stats
}

type Stats struct {
	Paths, Infeasible, Steps int64
	Forks                    int64
	FnSeen                   map[string]bool
	IntrinsicsSeen           map[string]bool
	AssertQueries            int64
	CrossChecked             int64
	CrossUnknown             int64
	BranchQueries            int64
	ForkSites                map[string]int
}

type intrinsic func(e *Engine, fr *frame, args []Value, site ssa.CallInstruction) Value

func NewEngine(p *Program, cfg Config) (*Engine, error) {
	if cfg.Unwind == 0 {
		cfg.Unwind = 2000
	}
	if cfg.MaxDepth == 0 {
		cfg.MaxDepth = 400
	}
	if cfg.StepBudget == 0 {
		cfg.StepBudget = 200_000_000
	}
	if cfg.SolverKind == "" {
		cfg.SolverKind = "z3"
	}
	if cfg.SolverTimeout == 0 {
		cfg.SolverTimeout = 10 * time.Second
	}
	s, err := smt.NewSolver(cfg.SolverKind, cfg.SolverTimeout)
	if err != nil {
		return nil, err
	}
	e := &Engine{
		prog:    p,
		ctx:     smt.NewCtx(),
		solver:  s,
		cfg:     cfg,
		globals: map[*ssa.Global]*Value{},
		fninfo:  map[*ssa.Function]*fnInfo{},
		intr:    map[string]intrinsic{},
	}
	e.Stats.FnSeen = map[string]bool{}
	e.usedParams = map[string]int{}
	e.Stats.IntrinsicsSeen = map[string]bool{}
	registerIntrinsics(e)
	return e, nil
}

func (e *Engine) Close() {
	e.solver.Close()
	for _, s := range e.auxSolvers {
		s.Close()
	}
	if e.xsolver != nil {
		e.xsolver.Close()
	}
}

func (e *Engine) SolverStats() smt.SolverStats { return e.solver.Stats }

func (e *Engine) abort(k abortKind, msg string) {
	panic(pathAbort{k, msg})
}

// goPanic raises a Go-level panic in the interpreted program.
func (e *Engine) goPanic(msg string) {
	panic(pathAbort{abortPanic, msg})
}

// ---- heap writes (undo-logged) ----

func (e *Engine) set(p *Value, v Value) {
	e.undo = append(e.undo, undoRec{p, *p})
	*p = v
}

func (e *Engine) rollback() { e.rollbackTo(0, 0, 0) }

// rollbackTo undoes heap writes back to the given undo-log marks.
func (e *Engine) rollbackTo(m1, m2, m3 int) {
	for i := len(e.undo) - 1; i >= m1; i-- {
		*e.undo[i].p = e.undo[i].old
	}
	e.undo = e.undo[:m1]
	for i := len(e.mapUndo) - 1; i >= m2; i-- {
		u := e.mapUndo[i]
		u.m.entries = u.entries
		u.m.idxFor = -1
	}
	e.mapUndo = e.mapUndo[:m2]
	for i := len(e.chanUndo) - 1; i >= m3; i-- {
		u := e.chanUndo[i]
		u.c.buf, u.c.closed = u.buf, u.closed
	}
	e.chanUndo = e.chanUndo[:m3]
}

// store writes v of type t through pointer p (field-wise for aggregates, so that
// pointers into the aggregate stay valid).
func (e *Engine) store(t types.Type, p *Value, v Value) {
	switch u := under(t).(type) {
	case *types.Struct:
		lhs, ok := (*p).(structV)
		rhs := v.(structV)
		if !ok {
			e.set(p, copyVal(v))
			return
		}
		for i := range lhs {
			e.store(u.Field(i).Type(), &lhs[i], rhs[i])
		}
	case *types.Array:
		lhs, ok := (*p).(arrayV)
		rhs := v.(arrayV)
		if !ok {
			e.set(p, copyVal(v))
			return
		}
		for i := range lhs {
			e.store(u.Elem(), &lhs[i], rhs[i])
		}
	default:
		e.set(p, v)
	}
}

func (e *Engine) load(t types.Type, p *Value) Value {
	return copyVal(*p)
}

// ---- path condition / solver ----

func (e *Engine) syncSolver() {
	if e.solver.Lost {
		e.solver.Lost = false
		e.solver.Push()
		e.asserted = 0
	}
	for e.asserted < len(e.pc) {
		e.solver.Assert(e.pc[e.asserted])
		e.asserted++
	}
}

// check asks whether pc ∧ extra is satisfiable.
func (e *Engine) check(extra *smt.Term) smt.Result {
	if extra.IsFalse() {
		return smt.Unsat
	}
	e.syncSolver()
	e.pathQueries++
	r := e.solver.Check(extra)
	if r == smt.Unknown {
		r = e.retryLonger(extra)
	}
	if r == smt.Sat {
		e.solver.EndCheck()
	}
	return r
}

// retryLonger gives a query the solver could not decide in time one more chance with six times
// the time limit (the process was restarted by the unknown, so the path condition is re-sent).
// The verdict is still the solver's; only a second unknown makes the check inconclusive.
func (e *Engine) retryLonger(extra *smt.Term) smt.Result {
	old := e.solver.Timeout
	e.solver.Retime(6 * old)
	e.syncSolver()
	e.retries++
	r := e.solver.Check(extra)
	if r == smt.Unknown {
		e.solver.Timeout = old // Check has already restarted the process with the long limit
		e.solver.Retime(old)
		return r
	}
	// keep the scope state of a Sat answer intact: the limit is restored at the next restart
	e.solver.Timeout = old
	return r
}

// resync re-establishes the solver scope after a solver restart.
func (e *Engine) resync() {
	e.solver.Lost = false
	e.solver.Push()
	e.asserted = 0
}

func (e *Engine) addPC(t *smt.Term) {
	if t.IsTrue() {
		return
	}
	e.pc = append(e.pc, t)
	e.learn(t)
}

// learn records var = const facts implied by a new path-condition conjunct.
func (e *Engine) learn(t *smt.Term) {
	switch t.Op {
	case smt.OAnd:
		for _, a := range t.Args {
			e.learn(a)
		}
	case smt.OVar:
		e.bindVar(t, e.ctx.True)
	case smt.ONot:
		if t.Args[0].Op == smt.OVar {
			e.bindVar(t.Args[0], e.ctx.False)
		}
	case smt.OEq:
		a, b := t.Args[0], t.Args[1]
		if a.Op == smt.OVar && b.IsConst() {
			e.bindVar(a, b)
		} else if b.Op == smt.OVar && a.IsConst() {
			e.bindVar(b, a)
		}
	}
}

func (e *Engine) bindVar(v, c *smt.Term) {
	if _, ok := e.bind[v]; ok {
		return
	}
	e.bind[v] = c
	e.substMemo = map[*smt.Term]*smt.Term{}
}

// simp applies the facts learnt on this path to a term.
func (e *Engine) simp(t *smt.Term) *smt.Term {
	if len(e.bind) == 0 || t.IsConst() {
		return t
	}
	return e.ctx.Subst(t, e.bind, e.substMemo)
}

// choose picks one of the mutually exclusive alternatives; the others that are feasible
// are queued as new work. exhaustive means the alternatives cover all cases, so the last
// undecided one needs no query when all others are infeasible.
func (e *Engine) choose(alts []*smt.Term, exhaustive bool) int {
	if len(e.bind) > 0 {
		na := make([]*smt.Term, len(alts))
		for i, a := range alts {
			na[i] = e.simp(a)
		}
		alts = na
	}
	// constant fast path: no decision recorded
	for i, a := range alts {
		if a.IsTrue() {
			return i
		}
	}
	nonFalse := -1
	cnt := 0
	for i, a := range alts {
		if !a.IsFalse() {
			nonFalse = i
			cnt++
		}
	}
	if cnt == 0 {
		e.abort(abortInfeasible, "no alternative")
	}
	if cnt == 1 && exhaustive {
		e.addPC(alts[nonFalse])
		return nonFalse
	}
	if e.pos < len(e.decisions) {
		d := e.decisions[e.pos]
		e.pos++
		e.addPC(alts[d])
		return d
	}
	e.Stats.BranchQueries++
	var feas []int
	undecided := cnt
	for i, a := range alts {
		if a.IsFalse() {
			continue
		}
		undecided--
		if exhaustive && undecided == 0 && len(feas) == 0 {
			feas = append(feas, i) // must be feasible if the path is
			break
		}
		if r := e.check(a); r != smt.Unsat {
			feas = append(feas, i)
		}
	}
	if len(feas) == 0 {
		e.abort(abortInfeasible, "no feasible alternative")
	}
	if len(feas) > 1 && e.mergedDepth == 0 {
		site := "?"
		if n := len(e.stack); n > 0 {
			site = e.stack[n-1].fn.String()
		}
		if e.Stats.ForkSites == nil {
			e.Stats.ForkSites = map[string]int{}
		}
		e.Stats.ForkSites[site] += len(feas) - 1
	}
	prefix := e.decisions[:e.pos]
	for _, f := range feas[1:] {
		w := make([]int, len(prefix)+1)
		copy(w, prefix)
		w[len(prefix)] = f
		e.newWork = append(e.newWork, w)
		e.Stats.Forks++
	}
	e.decisions = append(e.decisions[:e.pos], feas[0])
	e.pos++
	e.addPC(alts[feas[0]])
	return feas[0]
}

// branch decides a boolean condition.
func (e *Engine) branch(c Value) bool {
	switch b := c.(type) {
	case bool:
		return b
	case *smt.Term:
		if b.IsConst() {
			return b.Val == 1
		}
		return e.choose([]*smt.Term{b, e.ctx.Not(b)}, true) == 0
	}
	panic(fmt.Sprintf("branch on %T", c))
}

// obligation: cond must hold or the Go program panics with msg.
func (e *Engine) obligation(cond *smt.Term, msg string) {
	if cond.IsTrue() {
		return
	}
	if cond.IsFalse() {
		e.goPanic("runtime error: " + msg)
	}
	if e.choose([]*smt.Term{cond, e.ctx.Not(cond)}, true) == 1 {
		e.goPanic("runtime error: " + msg)
	}
}

// model extracts values for the inputs of this path; call right after a Sat answer.
func (e *Engine) modelFor(extra *smt.Term) (map[string]string, smt.Result) {
	e.syncSolver()
	e.pathQueries++
	r := e.solver.Check(extra)
	if r == smt.Unknown {
		r = e.retryLonger(extra)
	}
	if r != smt.Sat {
		return nil, r
	}
	vars := make([]*smt.Term, 0, len(e.inputs))
	for _, in := range e.inputs {
		if in.Term.Op == smt.OVar {
			vars = append(vars, in.Term)
		}
	}
	m, err := e.solver.Model(vars)
	e.solver.EndCheck()
	if err != nil {
		return nil, smt.Unknown
	}
	out := map[string]string{}
	for _, in := range e.inputs {
		v := m[in.Term.Name]
		out[in.Name] = fmt.Sprintf("%d", v)
	}
	return out, smt.Sat
}

func (e *Engine) inputNames() []string {
	out := make([]string, len(e.inputs))
	for i, in := range e.inputs {
		out[i] = in.Name
	}
	return out
}

// freshName makes input names unique and deterministic along a path.
func (e *Engine) freshName(base string) string {
	n := e.names[base]
	e.names[base] = n + 1
	if n == 0 {
		return base
	}
	return fmt.Sprintf("%s#%d", base, n)
}

func (e *Engine) newInput(base string, t types.Type) Value {
	s, ok := sortOf(t)
	if !ok {
		e.abort(abortEngine, fmt.Sprintf("nondet of type %v", t))
	}
	name := e.freshName(base)
	v := e.ctx.Var(name, s)
	e.inputs = append(e.inputs, Input{Name: name, Term: v, Type: under(t).String()})
	return v
}

func (e *Engine) stackTrace() []string {
	var out []string
	for i := len(e.stack) - 1; i >= 0 && len(out) < 12; i-- {
		out = append(out, e.stack[i].fn.String())
	}
	return out
}

func (e *Engine) addFinding(f Finding) {
	f.Path = append([]int{}, e.decisions[:e.pos]...)
	f.Inputs = e.inputNames()
	if f.Class == "" {
		f.Class = e.classTag
	}
	if f.Stack == nil {
		f.Stack = e.stackTrace()
	}
	e.findings = append(e.findings, f)
}

// PathResult is what one explored path produced.
type PathResult struct {
	Decisions []int
	End       string // "ok", "infeasible", "panic", "unwind", "engine", "exit", "budget"
	Msg       string
	Findings  []Finding
	Marks     []string
	NewWork   [][]int
	Steps     int64
	Inputs    []Input
	Observes  []Observation
	PC        []*smt.Term
	Stdout    string
	ExitCode  int
}

// RunPath executes harness fn along the given decision prefix.
func (e *Engine) RunPath(fn *ssa.Function, prefix []int) (res PathResult) {
	e.pc = e.pc[:0]
	e.asserted = 0
	e.decisions = append(e.decisions[:0], prefix...)
	e.pos = 0
	e.newWork = nil
	e.names = map[string]int{}
	e.inputs = nil
	e.observes = nil
	e.marks = map[string]bool{}
	e.findings = nil
	e.depth = 0
	e.steps = 0
	e.stack = e.stack[:0]
	e.unwind = e.cfg.Unwind
	e.maxDepth = e.cfg.MaxDepth
	e.mustTerm = false
	e.mapOrder = e.cfg.NondetMapOrder
	e.classTag = ""
	e.stdout = nil
	e.stderrN = 0
	e.exitCode = 0
	e.exited = false
	e.flags = map[string]Value{}
	e.files = map[string]Value{}
	e.stdin = nil
	e.hostState = map[string]interface{}{}
	for k, v := range e.initHost {
		e.hostState[k] = v
	}
	e.envForPath()
	e.oblig = map[string][2]int64{}
	e.summarise = nil
	e.mergedDepth = 0
	e.bind = map[*smt.Term]*smt.Term{}
	e.substMemo = map[*smt.Term]*smt.Term{}
	e.pathQueries = 0
	e.solver.Lost = false
	e.solver.Push()
	defer func() {
		e.killGoroutines()
		e.lastObligations = e.oblig
		e.solver.Pop()
		for e.solver.Level() > 0 {
			e.solver.Pop()
		}
		e.rollback()
		res.Decisions = append([]int{}, e.decisions[:e.pos]...)
		res.Findings = e.findings
		for m := range e.marks {
			res.Marks = append(res.Marks, m)
		}
		sort.Strings(res.Marks)
		res.NewWork = e.newWork
		res.Steps = e.steps
		res.Inputs = e.inputs
		res.Observes = e.observes
		res.PC = append([]*smt.Term{}, e.pc...)
		res.ExitCode = e.exitCode
		e.Stats.Paths++
		e.Stats.Steps += e.steps
		if r := recover(); r != nil {
			pa, ok := r.(pathAbort)
			if !ok {
				panic(r)
			}
			res.Msg = pa.msg
			switch pa.kind {
			case abortInfeasible:
				res.End = "infeasible"
				e.Stats.Infeasible++
			case abortPanic:
				res.End = "panic"
			case abortUnwind:
				res.End = "unwind"
			case abortEngine:
				res.End = "engine"
			case abortStop:
				res.End = "ok"
			case abortExit:
				res.End = "exit"
			case abortBudget:
				res.End = "budget"
			}
		} else {
			res.End = "ok"
		}
	}()
	func() {
		defer func() {
			// turn Go-level panics into findings while the path state is still alive
			if r := recover(); r != nil {
				pa, ok := r.(pathAbort)
				if !ok {
					// engine bug or unsupported construct surfaced as a host panic
					panic(pathAbort{abortEngine, fmt.Sprintf("host panic: %v @ %s", r, strings.Join(e.stackTrace(), " < "))})
				}
				if pa.kind == abortPanic {
					e.reportPanic(pa.msg)
				}
				if pa.kind == abortUnwind && e.mustTerm {
					e.reportUnwind(pa.msg)
				}
				panic(pa)
			}
		}()
		e.call(fn, nil, nil)
	}()
	return
}

func (e *Engine) reportPanic(msg string) {
	if e.hostState["expectPanic"] != nil {
		return
	}
	m, r := e.modelFor(e.ctx.True)
	f := Finding{Kind: "panic", Label: "no-panic", Msg: msg, Model: m}
	if r != smt.Sat {
		f.Unknown = true
	}
	e.addFinding(f)
}

func (e *Engine) reportUnwind(msg string) {
	m, r := e.modelFor(e.ctx.True)
	f := Finding{Kind: "unwind", Label: "terminates", Msg: msg, Model: m}
	if r != smt.Sat {
		f.Unknown = true
	}
	e.addFinding(f)
}
