package sym

import (
	"fmt"
	"go/constant"
	"go/token"
	"go/types"

	"crdverif/smt"

	"golang.org/x/tools/go/ssa"
)

type fnInfo struct {
	num   map[ssa.Value]int
	nregs int
}

type deferred struct {
	fn   Value
	args []Value
	site *ssa.Defer
}

type frame struct {
	fn     *ssa.Function
	info   *fnInfo
	regs   []Value
	env    []Value
	defers *[]deferred
	block  *ssa.BasicBlock
	prev   *ssa.BasicBlock
	visits map[*ssa.BasicBlock]int
	result Value
}

func (e *Engine) info(fn *ssa.Function) *fnInfo {
	if fi, ok := e.fninfo[fn]; ok {
		return fi
	}
	fi := &fnInfo{num: map[ssa.Value]int{}}
	n := 0
	for _, p := range fn.Params {
		fi.num[p] = n
		n++
	}
	for _, b := range fn.Blocks {
		for _, in := range b.Instrs {
			if v, ok := in.(ssa.Value); ok {
				fi.num[v] = n
				n++
			}
		}
	}
	fi.nregs = n
	e.fninfo[fn] = fi
	return fi
}

func (e *Engine) constVal(c *ssa.Const) Value {
	t := c.Type()
	if c.Value == nil {
		return e.zero(t)
	}
	switch u := under(t).(type) {
	case *types.Basic:
		switch {
		case isBoolT(u):
			return constant.BoolVal(c.Value)
		case isStringT(u):
			if c.Value.Kind() == constant.String {
				return constant.StringVal(c.Value)
			}
			return string(rune(c.Int64()))
		case isFloat(u):
			return c.Float64()
		}
		if _, signed, ok := intInfo(u); ok {
			if signed {
				return normInt(t, uint64(c.Int64()))
			}
			return normInt(t, c.Uint64())
		}
	}
	panic(fmt.Sprintf("constVal: unsupported constant %v of type %v", c, t))
}

func (fr *frame) get(e *Engine, v ssa.Value) Value {
	switch x := v.(type) {
	case *ssa.Const:
		return e.constVal(x)
	case *ssa.Global:
		if p, ok := e.globals[x]; ok {
			return p
		}
		return e.globalCell(x)
	case *ssa.Function:
		return x
	case *ssa.Builtin:
		return x
	case *ssa.FreeVar:
		for i, fv := range fr.fn.FreeVars {
			if fv == x {
				return fr.env[i]
			}
		}
		panic("free variable not found")
	}
	if i, ok := fr.info.num[v]; ok {
		return fr.regs[i]
	}
	panic(fmt.Sprintf("get: no register for %v (%T) in %s", v.Name(), v, fr.fn))
}

func (fr *frame) setReg(v ssa.Value, x Value) {
	fr.regs[fr.info.num[v]] = x
}

func (e *Engine) globalCell(g *ssa.Global) *Value {
	p := new(Value)
	*p = e.zero(deref(g.Type()))
	e.globals[g] = p
	if init := e.externalGlobal(g); init != nil {
		*p = init
	} else if !initAllowed(g.Pkg.Pkg.Path()) {
		e.abort(abortEngine, "read of a dependency global whose initialiser is not run: "+g.Pkg.Pkg.Path()+"."+g.Name())
	}
	return p
}

// call invokes a function value.
func (e *Engine) call(fn Value, args []Value, site ssa.CallInstruction) Value {
	switch f := fn.(type) {
	case *ssa.Function:
		if f == nil {
			e.goPanic("runtime error: invalid memory address or nil pointer dereference (nil func)")
		}
		return e.callSSA(f, args, nil, site)
	case *closure:
		if f == nil {
			e.goPanic("runtime error: invalid memory address or nil pointer dereference (nil func)")
		}
		return e.callSSA(f.fn, args, f.env, site)
	case *ssa.Builtin:
		return e.callBuiltin(f, args, site)
	case *hostFunc:
		return f.fn(e, args)
	case nil:
		e.goPanic("runtime error: invalid memory address or nil pointer dereference (nil func)")
	}
	panic(fmt.Sprintf("call of %T", fn))
}

func fnKey(fn *ssa.Function) string {
	if o := fn.Origin(); o != nil {
		return o.String()
	}
	return fn.String()
}

func (e *Engine) callSSA(fn *ssa.Function, args []Value, env []Value, site ssa.CallInstruction) Value {
	key := fnKey(fn)
	if in, ok := e.intr[key]; ok {
		e.Stats.IntrinsicsSeen[key] = true
		var fr *frame
		if len(e.stack) > 0 {
			fr = e.stack[len(e.stack)-1]
		}
		return in(e, fr, args, site)
	}
	if fn.Synthetic == "package initializer" && !initAllowed(fn.Pkg.Pkg.Path()) {
		return nil
	}
	if fn.Blocks == nil {
		e.abort(abortEngine, "call of external function without model: "+key)
	}
	if !e.interpretable(fn) {
		e.abort(abortEngine, "call into unmodelled package: "+key)
	}
	if e.depth >= e.maxDepth {
		e.abort(abortUnwind, fmt.Sprintf("call depth %d reached in %s", e.depth, key))
	}
	if !e.Stats.FnSeen[key] {
		e.Stats.FnSeen[key] = true
	}
	if e.summarise != nil && e.summarised(key) {
		return e.callMerged(fn, args, env, site)
	}
	return e.callRaw(fn, args, env, site)
}

// callRaw pushes a frame and interprets fn.
func (e *Engine) callRaw(fn *ssa.Function, args []Value, env []Value, site ssa.CallInstruction) Value {
	fi := e.info(fn)
	fr := &frame{fn: fn, info: fi, regs: make([]Value, fi.nregs), env: env}
	for i := range fn.Params {
		fr.regs[i] = args[i]
	}
	e.depth++
	e.stack = append(e.stack, fr)
	e.runFrame(fr)
	e.stack = e.stack[:len(e.stack)-1]
	e.depth--
	return fr.result
}

func (e *Engine) runFrame(fr *frame) {
	fr.block = fr.fn.Blocks[0]
	for {
		b := fr.block
		if len(b.Preds) > 1 || (len(b.Preds) == 1 && b.Preds[0].Index >= b.Index) {
			// possible loop header: count visits
			if fr.visits == nil {
				fr.visits = map[*ssa.BasicBlock]int{}
			}
			fr.visits[b]++
			if fr.visits[b] > e.unwind {
				e.abort(abortUnwind, fmt.Sprintf("loop bound %d reached in %s block %d", e.unwind, fr.fn, b.Index))
			}
		}
		// phis first (parallel assignment)
		i := 0
		if fr.prev != nil {
			var edge int = -1
			for k, p := range b.Preds {
				if p == fr.prev {
					edge = k
					break
				}
			}
			var tmp []Value
			for ; i < len(b.Instrs); i++ {
				phi, ok := b.Instrs[i].(*ssa.Phi)
				if !ok {
					break
				}
				tmp = append(tmp, fr.get(e, phi.Edges[edge]))
			}
			for k, v := range tmp {
				fr.setReg(b.Instrs[k].(*ssa.Phi), v)
			}
		}
		jumped := false
		for ; i < len(b.Instrs); i++ {
			e.steps++
			if e.steps > e.cfg.StepBudget {
				e.abort(abortBudget, "step budget exhausted")
			}
			switch e.visit(fr, b.Instrs[i]) {
			case kNext:
			case kJump:
				jumped = true
			case kReturn:
				return
			}
			if jumped {
				break
			}
		}
		if !jumped {
			panic("block fell through: " + fr.fn.String())
		}
	}
}

type cont int

const (
	kNext cont = iota
	kJump
	kReturn
)

func (e *Engine) visit(fr *frame, instr ssa.Instruction) cont {
	switch in := instr.(type) {
	case *ssa.DebugRef:
	case *ssa.UnOp:
		fr.setReg(in, e.visitUnOp(fr, in))
	case *ssa.BinOp:
		fr.setReg(in, e.binop(in.Op, in.X.Type(), in.Y.Type(), fr.get(e, in.X), fr.get(e, in.Y)))
	case *ssa.Call:
		fn, args := e.prepareCall(fr, &in.Call)
		fr.setReg(in, e.call(fn, args, in))
	case *ssa.ChangeInterface:
		fr.setReg(in, fr.get(e, in.X))
	case *ssa.ChangeType:
		fr.setReg(in, fr.get(e, in.X))
	case *ssa.Convert:
		fr.setReg(in, e.conv(in.Type(), in.X.Type(), fr.get(e, in.X)))
	case *ssa.MultiConvert:
		fr.setReg(in, e.conv(in.Type(), in.X.Type(), fr.get(e, in.X)))
	case *ssa.SliceToArrayPointer:
		e.abort(abortEngine, "SliceToArrayPointer")
	case *ssa.MakeInterface:
		fr.setReg(in, iface{t: in.X.Type(), v: fr.get(e, in.X)})
	case *ssa.Extract:
		fr.setReg(in, fr.get(e, in.Tuple).(tuple)[in.Index])
	case *ssa.Slice:
		fr.setReg(in, e.sliceOp(fr, in))
	case *ssa.Return:
		switch len(in.Results) {
		case 0:
		case 1:
			fr.result = fr.get(e, in.Results[0])
		default:
			res := make(tuple, len(in.Results))
			for i, r := range in.Results {
				res[i] = fr.get(e, r)
			}
			fr.result = res
		}
		return kReturn
	case *ssa.RunDefers:
		e.runDefers(fr)
	case *ssa.Panic:
		v := fr.get(e, in.X)
		e.goPanic("panic: " + e.panicText(v))
	case *ssa.Send:
		e.chanSend(fr.get(e, in.Chan).(*chanObj), fr.get(e, in.X))
	case *ssa.Store:
		e.storeVia(deref(in.Addr.Type()), fr.get(e, in.Addr), fr.get(e, in.Val))
	case *ssa.If:
		succ := 1
		if e.branch(fr.get(e, in.Cond)) {
			succ = 0
		}
		fr.prev, fr.block = fr.block, fr.block.Succs[succ]
		return kJump
	case *ssa.Jump:
		fr.prev, fr.block = fr.block, fr.block.Succs[0]
		return kJump
	case *ssa.Defer:
		fn, args := e.prepareCall(fr, &in.Call)
		d := deferred{fn: fn, args: args, site: in}
		var stack *[]deferred
		if in.DeferStack != nil {
			if ds, ok := fr.get(e, in.DeferStack).(*hostObj); ok && ds != nil {
				stack = ds.v.(*[]deferred)
			}
		}
		if stack == nil {
			if fr.defers == nil {
				fr.defers = new([]deferred)
			}
			stack = fr.defers
		}
		*stack = append(*stack, d)
	case *ssa.Go:
		fn, args := e.prepareCall(fr, &in.Call)
		e.spawn(fn, args)
	case *ssa.MakeChan:
		n := asInt(fr.get(e, in.Size))
		fr.setReg(in, &chanObj{cap: n})
	case *ssa.Alloc:
		p := new(Value)
		*p = e.zero(deref(in.Type()))
		fr.setReg(in, p)
	case *ssa.MakeSlice:
		ln, cp := fr.get(e, in.Len), fr.get(e, in.Cap)
		if isSym(ln) || isSym(cp) {
			e.abort(abortEngine, "make([]T, n) with symbolic n")
		}
		l, c := asInt(ln), asInt(cp)
		if l < 0 || c < l {
			e.goPanic("runtime error: makeslice: len out of range")
		}
		if c > 1<<24 {
			e.abort(abortEngine, "make: slice too large")
		}
		et := under(in.Type()).(*types.Slice).Elem()
		a := make([]Value, c)
		for i := range a {
			a[i] = e.zero(et)
		}
		fr.setReg(in, sliceV{a: a[:l]})
	case *ssa.MakeMap:
		mt := under(in.Type()).(*types.Map)
		fr.setReg(in, &mapObj{keyT: mt.Key(), valT: mt.Elem(), idxFor: -1})
	case *ssa.Range:
		fr.setReg(in, e.rangeIter(fr.get(e, in.X), in.X.Type()))
	case *ssa.Next:
		fr.setReg(in, e.iterNext(fr.get(e, in.Iter), in))
	case *ssa.FieldAddr:
		fr.setReg(in, e.fieldAddr(fr.get(e, in.X), in.Field))
	case *ssa.Field:
		fr.setReg(in, fr.get(e, in.X).(structV)[in.Field])
	case *ssa.IndexAddr:
		fr.setReg(in, e.indexAddr(fr, in))
	case *ssa.Index:
		fr.setReg(in, e.indexOp(fr, in))
	case *ssa.Lookup:
		fr.setReg(in, e.lookup(fr, in))
	case *ssa.MapUpdate:
		m := fr.get(e, in.Map).(*mapObj)
		e.mapUpdate(m, fr.get(e, in.Key), fr.get(e, in.Value))
	case *ssa.TypeAssert:
		fr.setReg(in, e.typeAssert(in, fr.get(e, in.X).(iface)))
	case *ssa.MakeClosure:
		env := make([]Value, len(in.Bindings))
		for i, b := range in.Bindings {
			env[i] = fr.get(e, b)
		}
		fr.setReg(in, &closure{fn: in.Fn.(*ssa.Function), env: env})
	case *ssa.Phi:
		panic("phi outside block entry")
	case *ssa.Select:
		fr.setReg(in, e.selectOp(fr, in))
	default:
		panic(fmt.Sprintf("unexpected instruction %T", instr))
	}
	return kNext
}

func (e *Engine) panicText(v Value) string {
	if i, ok := v.(iface); ok {
		if i.t == nil {
			return "nil"
		}
		switch x := i.v.(type) {
		case string:
			return x
		case *hostObj:
			if er, ok := x.v.(*errObj); ok {
				return er.String()
			}
		case *Value:
			return i.t.String()
		}
		return i.t.String() + " " + describe(i.v)
	}
	return describe(v)
}

func (e *Engine) prepareCall(fr *frame, c *ssa.CallCommon) (Value, []Value) {
	var fn Value
	var args []Value
	if c.Method == nil {
		fn = fr.get(e, c.Value)
	} else {
		recv := fr.get(e, c.Value).(iface)
		if recv.t == nil {
			e.goPanic("runtime error: invalid memory address or nil pointer dereference (method call on nil interface)")
		}
		if h, ok := e.hostMethod(recv, c.Method); ok {
			fn = h
		} else {
			m := e.prog.SSA.LookupMethod(recv.t, c.Method.Pkg(), c.Method.Name())
			if m == nil {
				e.abort(abortEngine, fmt.Sprintf("method %s not found on %v", c.Method.Name(), recv.t))
			}
			fn = m
		}
		args = append(args, recv.v)
	}
	for _, a := range c.Args {
		args = append(args, fr.get(e, a))
	}
	return fn, args
}

func (e *Engine) runDefers(fr *frame) {
	if fr.defers == nil {
		return
	}
	ds := *fr.defers
	*fr.defers = nil
	for i := len(ds) - 1; i >= 0; i-- {
		e.call(ds[i].fn, ds[i].args, ds[i].site)
	}
}

func (e *Engine) visitUnOp(fr *frame, in *ssa.UnOp) Value {
	x := fr.get(e, in.X)
	switch in.Op {
	case token.MUL:
		return e.loadVia(deref(in.X.Type()), x)
	case token.ARROW:
		v, ok := e.chanRecv(x.(*chanObj), under(in.X.Type()).(*types.Chan).Elem())
		if in.CommaOk {
			return tuple{v, ok}
		}
		return v
	}
	return e.unop(in.Op, in.X.Type(), x)
}

// ---- pointers ----

func (e *Engine) nilDeref() {
	e.goPanic("runtime error: invalid memory address or nil pointer dereference")
}

func (e *Engine) loadVia(t types.Type, p Value) Value {
	switch x := p.(type) {
	case *Value:
		if x == nil {
			e.nilDeref()
		}
		return e.load(t, x)
	case *symPtr:
		return e.symLoad(x, t)
	case *hostObj:
		if x == nil {
			e.nilDeref()
		}
		// loading the struct behind a host object: give back an opaque copy
		return x
	}
	panic(fmt.Sprintf("load through %T", p))
}

func (e *Engine) storeVia(t types.Type, p Value, v Value) {
	switch x := p.(type) {
	case *Value:
		if x == nil {
			e.nilDeref()
		}
		e.store(t, x, v)
		return
	case *symPtr:
		e.symStore(x, t, v)
		return
	}
	panic(fmt.Sprintf("store through %T", p))
}

func subAt(v Value, path []int) Value {
	for _, i := range path {
		switch x := v.(type) {
		case structV:
			v = x[i]
		case arrayV:
			v = x[i]
		default:
			panic("subAt: not an aggregate")
		}
	}
	return v
}

func subAddr(p *Value, path []int) *Value {
	for _, i := range path {
		switch x := (*p).(type) {
		case structV:
			p = &x[i]
		case arrayV:
			p = &x[i]
		default:
			panic("subAddr: not an aggregate")
		}
	}
	return p
}

func (e *Engine) symLoad(p *symPtr, t types.Type) Value {
	n := len(p.elems)
	res := copyVal(subAt(p.elems[n-1], p.path))
	for i := n - 2; i >= 0; i-- {
		c := e.ctx.Eq(p.idx, e.ctx.BVConst(64, uint64(i)))
		res = e.ite(c, t, subAt(p.elems[i], p.path), res)
	}
	return res
}

func (e *Engine) symStore(p *symPtr, t types.Type, v Value) {
	for i := range p.elems {
		c := e.ctx.Eq(p.idx, e.ctx.BVConst(64, uint64(i)))
		cell := subAddr(&p.elems[i], p.path)
		e.store(t, cell, e.ite(c, t, v, *cell))
	}
}

func (e *Engine) fieldAddr(p Value, field int) Value {
	switch x := p.(type) {
	case *Value:
		if x == nil {
			e.nilDeref()
		}
		s, ok := (*x).(structV)
		if !ok {
			panic(fmt.Sprintf("fieldAddr: cell holds %T", *x))
		}
		return &s[field]
	case *symPtr:
		np := *x
		np.path = append(append([]int{}, x.path...), field)
		return &np
	case *hostObj:
		e.abort(abortEngine, "field access on host object "+x.tag)
	}
	panic(fmt.Sprintf("fieldAddr on %T", p))
}

// concretizeIndex resolves an index into [0,n): concrete indices are bounds-checked,
// symbolic ones are forked over their feasible values.
func (e *Engine) concretizeIndex(idx Value, it types.Type, n int) int {
	if !isSym(idx) {
		var i int64
		switch v := idx.(type) {
		case int64:
			i = v
		case uint64:
			if v > 1<<62 {
				i = -1
			} else {
				i = int64(v)
			}
		}
		if i < 0 || i >= int64(n) {
			e.goPanic(fmt.Sprintf("runtime error: index out of range [%d] with length %d", i, n))
		}
		return int(i)
	}
	t := e.idx64(idx, it)
	alts := make([]*smt.Term, n+1)
	for i := 0; i < n; i++ {
		alts[i] = e.ctx.Eq(t, e.ctx.BVConst(64, uint64(i)))
	}
	alts[n] = e.ctx.Not(e.ctx.Ult(t, e.ctx.BVConst(64, uint64(n))))
	k := e.choose(alts, true)
	if k == n {
		e.goPanic(fmt.Sprintf("runtime error: index out of range with length %d", n))
	}
	return k
}

// idx64 widens an index value to BV64 (sign- or zero-extending by its type).
func (e *Engine) idx64(idx Value, it types.Type) *smt.Term {
	w, signed, _ := intInfo(it)
	t := e.lift(idx, it)
	if w == 64 {
		return t
	}
	if signed {
		return e.ctx.Sext(t, 64)
	}
	return e.ctx.Zext(t, 64)
}

func (e *Engine) indexAddr(fr *frame, in *ssa.IndexAddr) Value {
	x := fr.get(e, in.X)
	idx := fr.get(e, in.Index)
	var elems []Value
	var et types.Type
	switch v := x.(type) {
	case sliceV:
		elems = v.a
		et = under(in.X.Type()).(*types.Slice).Elem()
	case *Value:
		if v == nil {
			e.nilDeref()
		}
		elems = (*v).(arrayV)
		et = under(deref(in.X.Type())).(*types.Array).Elem()
	case *symPtr:
		e.abort(abortEngine, "IndexAddr through symbolic pointer")
	default:
		panic(fmt.Sprintf("indexAddr on %T", x))
	}
	if isSym(idx) && mergeable(et) && len(elems) > 0 {
		t := e.idx64(idx, in.Index.Type())
		e.obligation(e.ctx.Ult(t, e.ctx.BVConst(64, uint64(len(elems)))), "index out of range")
		return &symPtr{elems: elems, idx: t, elemT: et}
	}
	i := e.concretizeIndex(idx, in.Index.Type(), len(elems))
	return &elems[i]
}

func (e *Engine) indexOp(fr *frame, in *ssa.Index) Value {
	x := fr.get(e, in.X)
	idx := fr.get(e, in.Index)
	switch v := x.(type) {
	case arrayV:
		et := under(in.X.Type()).(*types.Array).Elem()
		if isSym(idx) && mergeable(et) && len(v) > 0 {
			t := e.idx64(idx, in.Index.Type())
			e.obligation(e.ctx.Ult(t, e.ctx.BVConst(64, uint64(len(v)))), "index out of range")
			return e.symLoad(&symPtr{elems: v, idx: t, elemT: et}, et)
		}
		return v[e.concretizeIndex(idx, in.Index.Type(), len(v))]
	case string, *SymStr:
		return e.strIndex(v, idx, in.Index.Type())
	}
	// generic type-parameter indexing on slices
	if s, ok := x.(sliceV); ok {
		return s.a[e.concretizeIndex(idx, in.Index.Type(), len(s.a))]
	}
	panic(fmt.Sprintf("index on %T", x))
}

func (e *Engine) strIndex(s Value, idx Value, it types.Type) Value {
	n := strLen(s)
	bt := types.Typ[types.Uint8]
	if !isSym(idx) {
		i := e.concretizeIndex(idx, it, n)
		if cs, ok := s.(string); ok {
			return uint64(cs[i])
		}
		return e.lower(s.(*SymStr).b[i], bt)
	}
	t := e.idx64(idx, it)
	e.obligation(e.ctx.Ult(t, e.ctx.BVConst(64, uint64(n))), "index out of range")
	b := e.strBytes(s)
	res := b[n-1]
	for i := n - 2; i >= 0; i-- {
		res = e.ctx.Ite(e.ctx.Eq(t, e.ctx.BVConst(64, uint64(i))), b[i], res)
	}
	return e.lower(res, bt)
}

// ---- slicing ----

func (e *Engine) sliceBound(v ssa.Value, fr *frame, def int, max int) int {
	if v == nil {
		return def
	}
	x := fr.get(e, v)
	if isSym(x) {
		// fork over feasible values 0..max
		t := e.idx64(x, v.Type())
		alts := make([]*smt.Term, max+2)
		for i := 0; i <= max; i++ {
			alts[i] = e.ctx.Eq(t, e.ctx.BVConst(64, uint64(i)))
		}
		alts[max+1] = e.ctx.Not(e.ctx.Ule(t, e.ctx.BVConst(64, uint64(max))))
		k := e.choose(alts, true)
		if k == max+1 {
			e.goPanic("runtime error: slice bounds out of range")
		}
		return k
	}
	switch n := x.(type) {
	case int64:
		if n < 0 {
			e.goPanic("runtime error: slice bounds out of range")
		}
		return int(n)
	case uint64:
		if n > 1<<40 {
			e.goPanic("runtime error: slice bounds out of range")
		}
		return int(n)
	}
	panic("sliceBound")
}

func (e *Engine) sliceOp(fr *frame, in *ssa.Slice) Value {
	x := fr.get(e, in.X)
	switch v := x.(type) {
	case string, *SymStr:
		n := strLen(v)
		lo := e.sliceBound(in.Low, fr, 0, n)
		hi := e.sliceBound(in.High, fr, n, n)
		if lo > hi || hi > n {
			e.goPanic(fmt.Sprintf("runtime error: slice bounds out of range [%d:%d] with length %d", lo, hi, n))
		}
		if cs, ok := v.(string); ok {
			return cs[lo:hi]
		}
		return e.mkStr(v.(*SymStr).b[lo:hi])
	case sliceV:
		c := cap(v.a)
		lo := e.sliceBound(in.Low, fr, 0, c)
		hi := e.sliceBound(in.High, fr, len(v.a), c)
		mx := e.sliceBound(in.Max, fr, c, c)
		if lo > hi || hi > mx || mx > c {
			e.goPanic(fmt.Sprintf("runtime error: slice bounds out of range [%d:%d:%d] with capacity %d", lo, hi, mx, c))
		}
		if v.nil && lo == 0 && hi == 0 {
			return v
		}
		return sliceV{a: v.a[lo:hi:mx]}
	case *Value:
		if v == nil {
			e.nilDeref()
		}
		arr := (*v).(arrayV)
		c := len(arr)
		lo := e.sliceBound(in.Low, fr, 0, c)
		hi := e.sliceBound(in.High, fr, c, c)
		mx := e.sliceBound(in.Max, fr, c, c)
		if lo > hi || hi > mx || mx > c {
			e.goPanic("runtime error: slice bounds out of range")
		}
		return sliceV{a: []Value(arr)[lo:hi:mx]}
	}
	panic(fmt.Sprintf("slice of %T", x))
}

// ---- type assertions ----

func (e *Engine) typeAssert(in *ssa.TypeAssert, x iface) Value {
	var ok bool
	var v Value
	if x.t != nil {
		if it, isI := under(in.AssertedType).(*types.Interface); isI {
			ok = types.Implements(x.t, it) || e.hostImplements(x, it)
			if ok {
				v = x
			}
		} else {
			ok = types.Identical(x.t, in.AssertedType)
			if ok {
				v = x.v
			}
		}
	}
	if in.CommaOk {
		if !ok {
			v = e.zero(in.AssertedType)
		}
		return tuple{v, ok}
	}
	if !ok {
		dyn := "nil"
		if x.t != nil {
			dyn = x.t.String()
		}
		e.goPanic(fmt.Sprintf("interface conversion: interface is %s, not %s", dyn, in.AssertedType))
	}
	return v
}

func (e *Engine) hostImplements(x iface, it *types.Interface) bool { return false }

// summarised reports whether calls of key are to be merged (exact name or "prefix*").
func (e *Engine) summarised(key string) bool {
	if v, ok := e.summarise[key]; ok {
		return v
	}
	hit := false
	for k := range e.summarise {
		if n := len(k); n > 0 && k[n-1] == '*' && len(key) >= n-1 && key[:n-1] == k[:n-1] {
			hit = true
		}
	}
	e.summarise[key] = hit
	return hit
}
