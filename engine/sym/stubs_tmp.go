package sym

import (
	"fmt"
	"go/token"
	"go/types"
	"math"

	"crdverif/smt"

	"golang.org/x/tools/go/ssa"
)

const tokenLSS = token.LSS

const smfPkg = "gitlab.com/gomidi/midi/v2/smf"

// deepEqual is reflect.DeepEqual for the value shapes crd and gomidi use it on.
func (e *Engine) deepEqual(t types.Type, a, b Value) *smt.Term {
	switch u := under(t).(type) {
	case *types.Slice:
		x, y := a.(sliceV), b.(sliceV)
		if x.nil != y.nil || len(x.a) != len(y.a) {
			return e.ctx.False
		}
		cs := make([]*smt.Term, len(x.a))
		for i := range x.a {
			cs[i] = e.deepEqual(u.Elem(), x.a[i], y.a[i])
		}
		return e.ctx.And(cs...)
	case *types.Struct:
		x, y := a.(structV), b.(structV)
		cs := make([]*smt.Term, len(x))
		for i := range x {
			cs[i] = e.deepEqual(u.Field(i).Type(), x[i], y[i])
		}
		return e.ctx.And(cs...)
	case *types.Array:
		x, y := a.(arrayV), b.(arrayV)
		cs := make([]*smt.Term, len(x))
		for i := range x {
			cs[i] = e.deepEqual(u.Elem(), x[i], y[i])
		}
		return e.ctx.And(cs...)
	case *types.Pointer:
		pa, ok1 := a.(*Value)
		pb, ok2 := b.(*Value)
		if ok1 && ok2 {
			if pa == nil || pb == nil {
				return e.ctx.BoolConst(pa == pb)
			}
			if pa == pb {
				return e.ctx.True
			}
			return e.deepEqual(u.Elem(), *pa, *pb)
		}
	case *types.Basic:
		return e.equal(t, a, b)
	}
	e.abort(abortEngine, fmt.Sprintf("reflect.DeepEqual on %v not modelled", t))
	return nil
}

func registerMIDI(e *Engine) {
	r := e.intr
	r["reflect.DeepEqual"] = func(e *Engine, fr *frame, args []Value, site ssa.CallInstruction) Value {
		a, b := args[0].(iface), args[1].(iface)
		if a.t == nil || b.t == nil {
			return a.t == nil && b.t == nil
		}
		if !types.Identical(a.t, b.t) {
			return false
		}
		return e.lowerBool(e.deepEqual(a.t, a.v, b.v))
	}
	// binary.Write for the fixed-size integers gomidi's writer emits (big endian)
	r["encoding/binary.Write"] = func(e *Engine, fr *frame, args []Value, site ssa.CallInstruction) Value {
		w := args[0].(iface)
		data := args[2].(iface)
		if data.t == nil || w.t == nil {
			e.abort(abortEngine, "binary.Write(nil)")
		}
		wd, _, ok := intInfo(data.t)
		if !ok {
			e.abort(abortEngine, fmt.Sprintf("binary.Write of %v not modelled", data.t))
		}
		t := e.lift(data.v, data.t)
		bt := types.Typ[types.Uint8]
		var bs []Value
		for hi := wd - 1; hi >= 7; hi -= 8 {
			bs = append(bs, e.lower(e.ctx.Extract(t, hi, hi-7), bt))
		}
		m := e.findMethod(w.t, "Write")
		if m == nil {
			e.abort(abortEngine, "binary.Write: writer without Write")
		}
		res := e.call(m, []Value{w.v, sliceV{a: bs}}, site).(tuple)
		return res[1]
	}
	// MetaTempo uses math/big; the formula is the SMF tempo definition (microseconds per quarter)
	r[smfPkg+".MetaTempo"] = func(e *Engine, fr *frame, args []Value, site ssa.CallInstruction) Value {
		mk := func(b0, b1, b2 Value) Value {
			return sliceV{a: []Value{uint64(0xFF), uint64(0x51), uint64(3), b0, b1, b2}}
		}
		if f, ok := args[0].(float64); ok {
			rr := uint32(math.Round(60000000 / f))
			if rr > 0x0FFFFFFF {
				rr = 0x0FFFFFFF
			}
			return mk(uint64(rr>>16&0xFF), uint64(rr>>8&0xFF), uint64(rr&0xFF))
		}
		c := e.ctx
		q := c.FUn(smt.OFRoundRNA, c.FDiv(c.FPConst(60000000), args[0].(*smt.Term)))
		inRange := c.And(c.FLe(c.FPConst(0), q), c.FLt(q, c.FPConst(4294967296.0)))
		e.obligation(inRange, "float to integer conversion out of range (tempo)")
		v := c.FToUBV(q, 32)
		v = c.Ite(c.Ult(c.BVConst(32, 0x0FFFFFFF), v), c.BVConst(32, 0x0FFFFFFF), v)
		bt := types.Typ[types.Uint8]
		return mk(e.lower(c.Extract(v, 23, 16), bt), e.lower(c.Extract(v, 15, 8), bt), e.lower(c.Extract(v, 7, 0), bt))
	}
}

// smfGlobals supplies the gomidi package-level values the engine needs without running
// gomidi's initialisers.
func (e *Engine) smfGlobal(key string) Value {
	switch key {
	case "encoding/binary.BigEndian", "encoding/binary.LittleEndian":
		return structV{}
	case smfPkg + ".EOT":
		return sliceV{a: []Value{uint64(0xFF), uint64(0x2F), uint64(0)}}
	}
	return nil
}
