package sym

import "go/token"

const tokenLSS = token.LSS

func registerEnv(e *Engine)  {}
func registerMIDI(e *Engine) {}
