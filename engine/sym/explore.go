package sym

import (
	"fmt"
	"sort"
	"strings"
	"sync"
	"time"

	"crdverif/smt"

	"golang.org/x/tools/go/ssa"
)

// Init runs the package initializers (crd + ybase + harness packages) concretely and
// takes the heap snapshot every later path starts from.
func (e *Engine) Init(pkgPath string) (err error) {
	p := e.prog.Pkgs[pkgPath]
	if p == nil {
		return fmt.Errorf("package %s not loaded", pkgPath)
	}
	initFn := p.Func("init")
	e.hostState = map[string]interface{}{}
	e.names = map[string]int{}
	e.marks = map[string]bool{}
	e.flags = map[string]Value{}
	e.files = map[string]Value{}
	e.unwind = 1 << 30
	e.maxDepth = 10000
	defer func() {
		if r := recover(); r != nil {
			if pa, ok := r.(pathAbort); ok {
				err = fmt.Errorf("init of %s aborted: %s [%s]", pkgPath, pa.msg, strings.Join(e.stackTrace(), " < "))
				return
			}
			panic(r)
		}
	}()
	// table-only dependency packages whose functions are interpreted: their initialisers must
	// have run whichever way the harness package imports them (a skipped strings.init would
	// otherwise leave unicode/utf8's decoding tables zero)
	for _, dep := range []string{"unicode/utf8", "bytes"} {
		if dp := e.prog.Pkgs[dep]; dp != nil {
			if f := dp.Func("init"); f != nil {
				e.call(f, nil, nil)
			}
		}
	}
	e.call(initFn, nil, nil)
	// snapshot: forget the undo log, keep init-time host state that must persist
	e.undo = e.undo[:0]
	e.mapUndo = e.mapUndo[:0]
	e.chanUndo = e.chanUndo[:0]
	e.initHost = e.hostState
	return nil
}

// HarnessResult aggregates the exploration of one harness.
type HarnessResult struct {
	Harness      string
	Paths        int64
	Infeasible   int64
	Steps        int64
	Ends         map[string]int64
	Marks        map[string]int64
	Obligations  map[string][2]int64 // label -> {symbolic queries, constant-folded}
	Findings     []Finding
	EngineErrors []string
	Unwinds      []string
	Samples      []PathSample
	Solver       smt.SolverStats
	Wall         time.Duration
	Functions    map[string]bool
	Intrinsics   map[string]bool
	Forks        int64
	Truncated    bool
	EarlyStop    bool // stopped because enough counterexamples were found (see ExploreOpts.StopOnFindings)
	BranchQ      int64
	CrossChecked int64
	CrossUnknown int64
	ForkSites    map[string]int
	Params       map[string]int
	AssertQ      int64
}

type PathSample struct {
	Decisions []int
	End       string
	Inputs    map[string]string
	Observes  map[string]string
	Marks     []string
}

type ExploreOpts struct {
	Workers    int
	MaxPaths   int64
	Deadline   time.Time
	SampleCap  int
	Cfg        Config
	FindingCap int // per (label,class)
	// StopOnFindings: stop scheduling new paths once some (kind,label,class) has FindingCap
	// definite counterexamples: a broken tree can blow the path count up (a loop over a symbolic
	// value in new code) and the counterexamples in hand are enough to report.
	StopOnFindings bool
	Progress   bool
}

// Explore runs every path of the harness (work list of decision prefixes shared by workers).
func Explore(prog *Program, harness string, opts ExploreOpts) (*HarnessResult, error) {
	fn := prog.Harness[harness]
	if fn == nil {
		return nil, fmt.Errorf("harness %s not found", harness)
	}
	if opts.Workers <= 0 {
		opts.Workers = 1
	}
	if opts.SampleCap == 0 {
		opts.SampleCap = 6
	}
	if opts.FindingCap == 0 {
		opts.FindingCap = 3
	}
	t0 := time.Now()
	res := &HarnessResult{Harness: harness, Ends: map[string]int64{}, Marks: map[string]int64{}, Obligations: map[string][2]int64{},
		Functions: map[string]bool{}, Intrinsics: map[string]bool{}}
	var mu sync.Mutex
	cond := sync.NewCond(&mu)
	work := [][]int{{}}
	active := 0
	stop := false
	findingCount := map[string]int{}
	var firstErr error

	worker := func(id int) {
		e, err := NewEngine(prog, opts.Cfg)
		if err == nil {
			err = e.Init(fn.Pkg.Pkg.Path())
		}
		if err != nil {
			mu.Lock()
			if firstErr == nil {
				firstErr = err
			}
			stop = true
			cond.Broadcast()
			mu.Unlock()
			return
		}
		defer e.Close()
		for {
			mu.Lock()
			for len(work) == 0 && active > 0 && !stop {
				cond.Wait()
			}
			if stop || (len(work) == 0 && active == 0) {
				cond.Broadcast()
				mu.Unlock()
				break
			}
			item := work[len(work)-1]
			work = work[:len(work)-1]
			active++
			mu.Unlock()

			pr := e.RunPath(fn, item)

			mu.Lock()
			active--
			res.Paths++
			res.Steps += pr.Steps
			res.Ends[pr.End]++
			for _, m := range pr.Marks {
				res.Marks[m]++
			}
			for k, v := range e.lastObligations {
				o := res.Obligations[k]
				o[0] += v[0]
				o[1] += v[1]
				res.Obligations[k] = o
			}
			switch pr.End {
			case "engine", "budget":
				if len(res.EngineErrors) < 20 && !contains(res.EngineErrors, pr.Msg) {
					res.EngineErrors = append(res.EngineErrors, pr.Msg)
				}
			case "unwind":
				if len(res.Unwinds) < 20 && !contains(res.Unwinds, pr.Msg) {
					res.Unwinds = append(res.Unwinds, pr.Msg)
				}
			case "infeasible":
				res.Infeasible++
			}
			for _, f := range pr.Findings {
				k := f.Kind + "|" + f.Label + "|" + f.Class
				if f.Unknown {
					k += "|unknown"
				}
				if findingCount[k] < opts.FindingCap {
					findingCount[k]++
					res.Findings = append(res.Findings, f)
					if opts.StopOnFindings && !f.Unknown && findingCount[k] >= opts.FindingCap && (len(work) > 0 || active > 0) {
						res.EarlyStop = true
						stop = true
					}
				}
			}
			if len(res.Samples) < opts.SampleCap && pr.End == "ok" && len(pr.Inputs) > 0 {
				res.Samples = append(res.Samples, e.sample(pr))
			}
			work = append(work, pr.NewWork...)
			if opts.MaxPaths > 0 && res.Paths >= opts.MaxPaths && (len(work) > 0 || active > 0) {
				res.Truncated = true
				stop = true
			}
			if !opts.Deadline.IsZero() && time.Now().After(opts.Deadline) && (len(work) > 0 || active > 0) {
				res.Truncated = true
				stop = true
			}
			cond.Broadcast()
			mu.Unlock()
		}
		mu.Lock()
		st := e.solver.Stats
		res.Solver.Sat += st.Sat
		res.Solver.Unsat += st.Unsat
		res.Solver.Unknown += st.Unknown
		res.Solver.Errors += st.Errors
		res.Solver.Time += st.Time
		res.Solver.Restarts += st.Restarts
		if e.solver.LastError != "" && len(res.EngineErrors) < 20 {
			res.EngineErrors = append(res.EngineErrors, "solver: "+e.solver.LastError)
		}
		res.Forks += e.Stats.Forks
		res.BranchQ += e.Stats.BranchQueries
		res.AssertQ += e.Stats.AssertQueries
		res.CrossChecked += e.Stats.CrossChecked
		res.CrossUnknown += e.Stats.CrossUnknown
		for k := range e.Stats.FnSeen {
			res.Functions[k] = true
		}
		if res.ForkSites == nil {
			res.ForkSites = map[string]int{}
		}
		for k, v := range e.Stats.ForkSites {
			res.ForkSites[k] += v
		}
		if res.Params == nil {
			res.Params = map[string]int{}
		}
		for k, v := range e.usedParams {
			res.Params[k] = v
		}
		for k := range e.Stats.IntrinsicsSeen {
			res.Intrinsics[k] = true
		}
		mu.Unlock()
	}
	if opts.Progress {
		done := make(chan struct{})
		defer close(done)
		go func() {
			for {
				select {
				case <-done:
					return
				case <-time.After(30 * time.Second):
					mu.Lock()
					fmt.Printf("  .. %s paths=%d queue=%d active=%d steps=%d findings=%d ends=%v\n", harness, res.Paths, len(work), active, res.Steps, len(res.Findings), res.Ends)
					mu.Unlock()
				}
			}
		}()
	}
	var wg sync.WaitGroup
	for i := 0; i < opts.Workers; i++ {
		wg.Add(1)
		go func(i int) {
			defer wg.Done()
			worker(i)
		}(i)
	}
	wg.Wait()
	res.Wall = time.Since(t0)
	if firstErr != nil {
		return res, firstErr
	}
	sort.Slice(res.Findings, func(i, j int) bool {
		a, b := res.Findings[i], res.Findings[j]
		if a.Label != b.Label {
			return a.Label < b.Label
		}
		return a.Class < b.Class
	})
	return res, nil
}

// sample asks the solver for one concrete input assignment of a finished path.
func (e *Engine) sample(pr PathResult) PathSample {
	s := PathSample{Decisions: pr.Decisions, End: pr.End, Marks: pr.Marks, Inputs: map[string]string{}, Observes: map[string]string{}}
	e.solver.Push()
	for _, c := range pr.PC {
		e.solver.Assert(c)
	}
	if e.solver.Check() == smt.Sat {
		var vars []*smt.Term
		for _, in := range pr.Inputs {
			vars = append(vars, in.Term)
		}
		m, err := e.solver.Model(vars)
		if err == nil {
			for _, in := range pr.Inputs {
				s.Inputs[in.Name] = fmt.Sprintf("%d", m[in.Term.Name])
			}
			for _, o := range pr.Observes {
				if o.Term == nil {
					s.Observes[o.Name] = o.Conc
					continue
				}
				u, f := smt.Eval(o.Term, m)
				if o.Term.S.K == smt.KFP {
					s.Observes[o.Name] = fmt.Sprintf("%v", f)
				} else {
					s.Observes[o.Name] = renderObserved(u, o.Term.S, o.Type)
				}
			}
		}
	}
	e.solver.Pop()
	return s
}

func renderObserved(u uint64, s smt.Sort, goType string) string {
	if s.K == smt.KBool {
		if u == 1 {
			return "true"
		}
		return "false"
	}
	if strings.HasPrefix(goType, "int") {
		sh := uint(64 - s.W)
		return fmt.Sprintf("%d", int64(u<<sh)>>sh)
	}
	return fmt.Sprintf("%d", u)
}

var _ = ssa.NewProgram

func contains(xs []string, s string) bool {
	for _, x := range xs {
		if x == s {
			return true
		}
	}
	return false
}
