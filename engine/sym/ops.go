package sym

import (
	"fmt"
	"go/token"
	"go/types"
	"math"
	"unicode/utf8"

	"crdverif/smt"
)

// binop evaluates x op y where both operands have static type t (shifts: y has type ty).
func (e *Engine) binop(op token.Token, t, ty types.Type, x, y Value) Value {
	switch op {
	case token.EQL:
		return e.lowerBool(e.equal(t, x, y))
	case token.NEQ:
		return e.lowerBool(e.ctx.Not(e.equal(t, x, y)))
	}
	if isStringT(t) {
		return e.strBinop(op, x, y)
	}
	if isBoolT(t) {
		// only == and != reach here for bools, handled above
		panic("binop on bool: " + op.String())
	}
	if isFloat(t) {
		return e.floatBinop(op, x, y)
	}
	w, signed, ok := intInfo(t)
	if !ok {
		panic(fmt.Sprintf("binop %v on type %v", op, t))
	}
	if op == token.SHL || op == token.SHR {
		return e.shift(op, t, ty, x, y)
	}
	if !isSym(x) && !isSym(y) {
		return concreteIntBinop(op, t, w, signed, x, y, e)
	}
	c := e.ctx
	a, b := e.lift(x, t), e.lift(y, t)
	switch op {
	case token.ADD:
		return e.lower(c.Add(a, b), t)
	case token.SUB:
		return e.lower(c.Sub(a, b), t)
	case token.MUL:
		return e.lower(c.Mul(a, b), t)
	case token.QUO, token.REM:
		e.obligation(c.Not(c.Eq(b, c.BVConst(w, 0))), "integer divide by zero")
		if signed {
			if op == token.QUO {
				return e.lower(c.SDiv(a, b), t)
			}
			return e.lower(c.SRem(a, b), t)
		}
		if op == token.QUO {
			return e.lower(c.UDiv(a, b), t)
		}
		return e.lower(c.URem(a, b), t)
	case token.AND:
		return e.lower(c.BAnd(a, b), t)
	case token.OR:
		return e.lower(c.BOr(a, b), t)
	case token.XOR:
		return e.lower(c.BXor(a, b), t)
	case token.AND_NOT:
		return e.lower(c.BAnd(a, c.BNot(b)), t)
	case token.LSS:
		if signed {
			return e.lowerBool(c.Slt(a, b))
		}
		return e.lowerBool(c.Ult(a, b))
	case token.LEQ:
		if signed {
			return e.lowerBool(c.Sle(a, b))
		}
		return e.lowerBool(c.Ule(a, b))
	case token.GTR:
		if signed {
			return e.lowerBool(c.Slt(b, a))
		}
		return e.lowerBool(c.Ult(b, a))
	case token.GEQ:
		if signed {
			return e.lowerBool(c.Sle(b, a))
		}
		return e.lowerBool(c.Ule(b, a))
	}
	panic("binop: unsupported int op " + op.String())
}

func concreteIntBinop(op token.Token, t types.Type, w int, signed bool, x, y Value, e *Engine) Value {
	if signed {
		a, b := x.(int64), y.(int64)
		switch op {
		case token.ADD:
			return normInt(t, uint64(a+b))
		case token.SUB:
			return normInt(t, uint64(a-b))
		case token.MUL:
			return normInt(t, uint64(a*b))
		case token.QUO:
			if b == 0 {
				e.goPanic("runtime error: integer divide by zero")
			}
			if b == -1 {
				return normInt(t, uint64(-a))
			}
			return normInt(t, uint64(a/b))
		case token.REM:
			if b == 0 {
				e.goPanic("runtime error: integer divide by zero")
			}
			if b == -1 {
				return normInt(t, 0)
			}
			return normInt(t, uint64(a%b))
		case token.AND:
			return normInt(t, uint64(a&b))
		case token.OR:
			return normInt(t, uint64(a|b))
		case token.XOR:
			return normInt(t, uint64(a^b))
		case token.AND_NOT:
			return normInt(t, uint64(a&^b))
		case token.LSS:
			return a < b
		case token.LEQ:
			return a <= b
		case token.GTR:
			return a > b
		case token.GEQ:
			return a >= b
		}
	} else {
		a, b := x.(uint64), y.(uint64)
		switch op {
		case token.ADD:
			return normInt(t, a+b)
		case token.SUB:
			return normInt(t, a-b)
		case token.MUL:
			return normInt(t, a*b)
		case token.QUO:
			if b == 0 {
				e.goPanic("runtime error: integer divide by zero")
			}
			return normInt(t, a/b)
		case token.REM:
			if b == 0 {
				e.goPanic("runtime error: integer divide by zero")
			}
			return normInt(t, a%b)
		case token.AND:
			return normInt(t, a&b)
		case token.OR:
			return normInt(t, a|b)
		case token.XOR:
			return normInt(t, a^b)
		case token.AND_NOT:
			return normInt(t, a&^b)
		case token.LSS:
			return a < b
		case token.LEQ:
			return a <= b
		case token.GTR:
			return a > b
		case token.GEQ:
			return a >= b
		}
	}
	panic("concreteIntBinop: unsupported op " + op.String())
}

func (e *Engine) shift(op token.Token, t, ty types.Type, x, y Value) Value {
	w, signed, _ := intInfo(t)
	wy, ysigned, ok := intInfo(ty)
	if !ok {
		panic(fmt.Sprintf("shift count type %v", ty))
	}
	if !isSym(x) && !isSym(y) {
		var n uint64
		if ysigned {
			if y.(int64) < 0 {
				e.goPanic("runtime error: negative shift amount")
			}
			n = uint64(y.(int64))
		} else {
			n = y.(uint64)
		}
		if signed {
			a := x.(int64)
			if op == token.SHL {
				if n >= 64 {
					return normInt(t, 0)
				}
				return normInt(t, uint64(a<<n))
			}
			if n >= 64 {
				n = 63
			}
			return normInt(t, uint64(a>>n))
		}
		a := x.(uint64)
		if n >= 64 {
			return normInt(t, 0)
		}
		if op == token.SHL {
			return normInt(t, a<<n)
		}
		return normInt(t, a>>n)
	}
	c := e.ctx
	a := e.lift(x, t)
	b := e.lift(y, ty)
	if ysigned {
		e.obligation(c.Not(c.Slt(b, c.BVConst(wy, 0))), "negative shift amount")
	}
	// bring the count to width w, saturating
	var cnt *smt.Term
	switch {
	case wy == w:
		cnt = b
	case wy < w:
		cnt = c.Zext(b, w)
	default:
		big := c.Not(c.Ult(b, c.BVConst(wy, uint64(w))))
		cnt = c.Ite(big, c.BVConst(w, uint64(w)), c.Extract(b, w-1, 0))
	}
	switch {
	case op == token.SHL:
		return e.lower(c.Shl(a, cnt), t)
	case signed:
		return e.lower(c.AShr(a, cnt), t)
	default:
		return e.lower(c.LShr(a, cnt), t)
	}
}

func (e *Engine) floatBinop(op token.Token, x, y Value) Value {
	if !isSym(x) && !isSym(y) {
		a, b := x.(float64), y.(float64)
		switch op {
		case token.ADD:
			return a + b
		case token.SUB:
			return a - b
		case token.MUL:
			return a * b
		case token.QUO:
			return a / b
		case token.LSS:
			return a < b
		case token.LEQ:
			return a <= b
		case token.GTR:
			return a > b
		case token.GEQ:
			return a >= b
		}
		panic("floatBinop: " + op.String())
	}
	c := e.ctx
	a, b := e.lift(x, types.Typ[types.Float64]), e.lift(y, types.Typ[types.Float64])
	ft := types.Typ[types.Float64]
	switch op {
	case token.ADD:
		return e.lower(c.FAdd(a, b), ft)
	case token.SUB:
		return e.lower(c.FSub(a, b), ft)
	case token.MUL:
		return e.lower(c.FMul(a, b), ft)
	case token.QUO:
		return e.lower(c.FDiv(a, b), ft)
	case token.LSS:
		return e.lowerBool(c.FLt(a, b))
	case token.LEQ:
		return e.lowerBool(c.FLe(a, b))
	case token.GTR:
		return e.lowerBool(c.FLt(b, a))
	case token.GEQ:
		return e.lowerBool(c.FLe(b, a))
	}
	panic("floatBinop: " + op.String())
}

func (e *Engine) strBinop(op token.Token, x, y Value) Value {
	xs, xc := x.(string)
	ys, yc := y.(string)
	if xc && yc {
		switch op {
		case token.ADD:
			return xs + ys
		case token.LSS:
			return xs < ys
		case token.LEQ:
			return xs <= ys
		case token.GTR:
			return xs > ys
		case token.GEQ:
			return xs >= ys
		}
	}
	if op == token.ADD {
		return e.mkStr(append(append([]*smt.Term{}, e.strBytes(x)...), e.strBytes(y)...))
	}
	// lexicographic comparison of symbolic strings
	lt := e.strLess(x, y, op == token.LEQ || op == token.GEQ, op == token.GTR || op == token.GEQ)
	return e.lowerBool(lt)
}

// strLess builds x<y (or x<=y when orEq); swap compares y with x.
func (e *Engine) strLess(x, y Value, orEq, swap bool) *smt.Term {
	if swap {
		x, y = y, x
	}
	a, b := e.strBytes(x), e.strBytes(y)
	c := e.ctx
	// fold from the end
	n := len(a)
	if len(b) < n {
		n = len(b)
	}
	var tail *smt.Term
	switch {
	case len(a) < len(b):
		tail = c.True
	case len(a) > len(b):
		tail = c.False
	default:
		tail = c.BoolConst(orEq)
	}
	for i := n - 1; i >= 0; i-- {
		tail = c.Or(c.Ult(a[i], b[i]), c.And(c.Eq(a[i], b[i]), tail))
	}
	return tail
}

func (e *Engine) unop(op token.Token, t types.Type, x Value) Value {
	switch op {
	case token.NOT:
		if b, ok := x.(bool); ok {
			return !b
		}
		return e.lowerBool(e.ctx.Not(x.(*smt.Term)))
	case token.SUB:
		if isFloat(t) {
			if f, ok := x.(float64); ok {
				return -f
			}
			return e.ctx.FNeg(x.(*smt.Term))
		}
		if !isSym(x) {
			return normInt(t, -asU64(x))
		}
		return e.lower(e.ctx.Neg(x.(*smt.Term)), t)
	case token.XOR:
		if !isSym(x) {
			return normInt(t, ^asU64(x))
		}
		return e.lower(e.ctx.BNot(x.(*smt.Term)), t)
	}
	panic("unop: unsupported " + op.String())
}

// conv implements ssa.Convert from type src to dst.
func (e *Engine) conv(dst, src types.Type, x Value) Value {
	ud, us := under(dst), under(src)
	// pointer <-> unsafe.Pointer
	if _, ok := ud.(*types.Pointer); ok {
		return x
	}
	if b, ok := ud.(*types.Basic); ok && b.Kind() == types.UnsafePointer {
		return x
	}
	// string conversions
	if isStringT(ud) {
		switch s := us.(type) {
		case *types.Basic:
			if isStringT(s) {
				return x
			}
			if _, _, ok := intInfo(s); ok {
				return e.runeToString(x, src)
			}
		case *types.Slice:
			sl := x.(sliceV)
			eb := under(s.Elem()).(*types.Basic)
			if eb.Kind() == types.Uint8 {
				bs := make([]*smt.Term, len(sl.a))
				for i, v := range sl.a {
					bs[i] = e.lift(v, s.Elem())
				}
				return e.mkStr(bs)
			}
			if eb.Kind() == types.Int32 {
				var out Value = ""
				for _, v := range sl.a {
					out = e.strBinop(token.ADD, out, e.runeToString(v, s.Elem()))
				}
				return out
			}
		}
		panic(fmt.Sprintf("conv to string from %v", src))
	}
	if sd, ok := ud.(*types.Slice); ok {
		if isStringT(us) {
			eb := under(sd.Elem()).(*types.Basic)
			if eb.Kind() == types.Uint8 {
				bs := e.strBytes(x)
				a := make([]Value, len(bs))
				for i, t := range bs {
					a[i] = e.lower(t, sd.Elem())
				}
				return sliceV{a: a}
			}
			if eb.Kind() == types.Int32 {
				s, ok := x.(string)
				if !ok {
					rs := e.decodeRunes(x)
					return sliceV{a: rs}
				}
				rs := []rune(s)
				a := make([]Value, len(rs))
				for i, r := range rs {
					a[i] = int64(r)
				}
				return sliceV{a: a}
			}
		}
		return x
	}
	// numeric
	wd, sgd, okd := intInfo(ud)
	ws, sgs, oks := intInfo(us)
	switch {
	case okd && oks:
		if !isSym(x) {
			return normInt(dst, asU64(x))
		}
		t := x.(*smt.Term)
		switch {
		case wd == ws:
			return t
		case wd < ws:
			return e.lower(e.ctx.Extract(t, wd-1, 0), dst)
		case sgs:
			return e.lower(e.ctx.Sext(t, wd), dst)
		default:
			return e.lower(e.ctx.Zext(t, wd), dst)
		}
	case okd && isFloat(us):
		if f, ok := x.(float64); ok {
			if sgd {
				return normInt(dst, uint64(int64(f)))
			}
			if f < 0 || math.IsNaN(f) {
				// implementation-specific in Go; mirror amd64 behaviour through int64
				return normInt(dst, uint64(int64(f)))
			}
			if f >= 9223372036854775808.0 {
				return normInt(dst, uint64(f))
			}
			return normInt(dst, uint64(f))
		}
		t := x.(*smt.Term)
		c := e.ctx
		// Go leaves out-of-range conversions implementation-defined: make in-range an obligation
		var lo, hi float64
		if sgd {
			lo, hi = -math.Ldexp(1, wd-1)-1, math.Ldexp(1, wd-1)
		} else {
			lo, hi = -1, math.Ldexp(1, wd)
		}
		inRange := c.And(c.FLt(c.FPConst(lo), t), c.FLt(t, c.FPConst(hi)))
		e.obligation(inRange, "float to integer conversion out of range")
		if sgd {
			return e.lower(c.FToSBV(t, wd), dst)
		}
		return e.lower(c.FToUBV(t, wd), dst)
	case isFloat(ud) && oks:
		if !isSym(x) {
			if sgs {
				return float64(x.(int64))
			}
			return float64(x.(uint64))
		}
		if sgs {
			return e.ctx.SToF(x.(*smt.Term))
		}
		return e.ctx.UToF(x.(*smt.Term))
	case isFloat(ud) && isFloat(us):
		return x
	}
	_ = ws
	panic(fmt.Sprintf("conv: unsupported %v -> %v", src, dst))
}

// runeToString implements string(r) for an integer value.
func (e *Engine) runeToString(x Value, src types.Type) Value {
	if !isSym(x) {
		var r rune
		switch v := x.(type) {
		case int64:
			if v < 0 || v > utf8.MaxRune {
				r = utf8.RuneError
			} else {
				r = rune(v)
			}
		case uint64:
			if v > utf8.MaxRune {
				r = utf8.RuneError
			} else {
				r = rune(v)
			}
		}
		return string(r)
	}
	// case-split on the encoding length
	c := e.ctx
	w, signed, _ := intInfo(src)
	t := x.(*smt.Term)
	var v *smt.Term // as BV32 code point
	switch {
	case w == 32:
		v = t
	case w < 32:
		if signed {
			v = c.Sext(t, 32)
		} else {
			v = c.Zext(t, 32)
		}
	default:
		v = c.Extract(t, 31, 0)
	}
	k := func(n uint64) *smt.Term { return c.BVConst(32, n) }
	var inRange *smt.Term
	if w > 32 {
		if signed {
			inRange = c.And(c.Sle(c.BVConst(w, 0), t), c.Sle(t, c.BVConst(w, 0x10FFFF)))
		} else {
			inRange = c.Ule(t, c.BVConst(w, 0x10FFFF))
		}
	} else {
		inRange = c.And(c.Sle(k(0), v), c.Sle(v, k(0x10FFFF)))
	}
	surrogate := c.And(c.Ule(k(0xD800), v), c.Ule(v, k(0xDFFF)))
	valid := c.And(inRange, c.Not(surrogate))
	alts := []*smt.Term{
		c.And(valid, c.Ult(v, k(0x80))),
		c.And(valid, c.Not(c.Ult(v, k(0x80))), c.Ult(v, k(0x800))),
		c.And(valid, c.Not(c.Ult(v, k(0x800))), c.Ult(v, k(0x10000))),
		c.And(valid, c.Not(c.Ult(v, k(0x10000)))),
		c.Not(valid),
	}
	b8 := func(x *smt.Term) *smt.Term { return c.Extract(x, 7, 0) }
	sh := func(x *smt.Term, n uint64) *smt.Term { return c.LShr(x, k(n)) }
	cont := func(x *smt.Term) *smt.Term { return b8(c.BOr(c.BAnd(x, k(0x3F)), k(0x80))) }
	switch e.choose(alts, true) {
	case 0:
		return e.mkStr([]*smt.Term{b8(v)})
	case 1:
		return e.mkStr([]*smt.Term{b8(c.BOr(sh(v, 6), k(0xC0))), cont(v)})
	case 2:
		return e.mkStr([]*smt.Term{b8(c.BOr(sh(v, 12), k(0xE0))), cont(sh(v, 6)), cont(v)})
	case 3:
		return e.mkStr([]*smt.Term{b8(c.BOr(sh(v, 18), k(0xF0))), cont(sh(v, 12)), cont(sh(v, 6)), cont(v)})
	default:
		return string(utf8.RuneError)
	}
}

// decodeRunes implements []rune(s) / range over a string with symbolic bytes by
// case-splitting on the UTF-8 class of each lead byte.
func (e *Engine) decodeRunes(s Value) []Value {
	var out []Value
	n := strLen(s)
	for pos := 0; pos < n; {
		r, size := e.decodeRuneAt(s, pos)
		out = append(out, r)
		pos += size
	}
	return out
}

// decodeRuneAt decodes one rune at byte offset pos (utf8.DecodeRuneInString semantics).
func (e *Engine) decodeRuneAt(s Value, pos int) (Value, int) {
	if cs, ok := s.(string); ok {
		r, size := utf8.DecodeRuneInString(cs[pos:])
		return int64(r), size
	}
	c := e.ctx
	b := e.strBytes(s)
	n := len(b) - pos
	b0 := b[pos]
	k8 := func(v uint64) *smt.Term { return c.BVConst(8, v) }
	if b0.IsConst() && b0.Val < 0x80 {
		return int64(b0.Val), 1
	}
	z := func(t *smt.Term) *smt.Term { return c.Zext(t, 32) }
	k := func(v uint64) *smt.Term { return c.BVConst(32, v) }
	isCont := func(t *smt.Term) *smt.Term { return c.Eq(c.BAnd(t, k8(0xC0)), k8(0x80)) }
	lo6 := func(t *smt.Term) *smt.Term { return z(c.BAnd(t, k8(0x3F))) }
	// candidate decodings
	ascii := c.Ult(b0, k8(0x80))
	var two, three, four *smt.Term = c.False, c.False, c.False
	var r2, r3, r4 *smt.Term
	if n >= 2 {
		r2 = c.BOr(c.Shl(z(c.BAnd(b0, k8(0x1F))), k(6)), lo6(b[pos+1]))
		two = c.And(c.Ule(k8(0xC2), b0), c.Ule(b0, k8(0xDF)), isCont(b[pos+1]))
	}
	if n >= 3 {
		r3 = c.BOr(c.BOr(c.Shl(z(c.BAnd(b0, k8(0x0F))), k(12)), c.Shl(lo6(b[pos+1]), k(6))), lo6(b[pos+2]))
		three = c.And(c.Ule(k8(0xE0), b0), c.Ule(b0, k8(0xEF)), isCont(b[pos+1]), isCont(b[pos+2]),
			c.Ule(k(0x800), r3), c.Not(c.And(c.Ule(k(0xD800), r3), c.Ule(r3, k(0xDFFF)))))
	}
	if n >= 4 {
		r4 = c.BOr(c.BOr(c.BOr(c.Shl(z(c.BAnd(b0, k8(0x07))), k(18)), c.Shl(lo6(b[pos+1]), k(12))), c.Shl(lo6(b[pos+2]), k(6))), lo6(b[pos+3]))
		four = c.And(c.Ule(k8(0xF0), b0), c.Ule(b0, k8(0xF4)), isCont(b[pos+1]), isCont(b[pos+2]), isCont(b[pos+3]),
			c.Ule(k(0x10000), r4), c.Ule(r4, k(0x10FFFF)))
	}
	invalid := c.Not(c.Or(ascii, two, three, four))
	rt := types.Typ[types.Int32]
	switch e.choose([]*smt.Term{ascii, two, three, four, invalid}, true) {
	case 0:
		return e.lower(z(b0), rt), 1
	case 1:
		return e.lower(r2, rt), 2
	case 2:
		return e.lower(r3, rt), 3
	case 3:
		return e.lower(r4, rt), 4
	default:
		return int64(utf8.RuneError), 1
	}
}
