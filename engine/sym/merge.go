package sym

import (
	"fmt"
	"go/types"

	"crdverif/smt"

	"golang.org/x/tools/go/ssa"
)

// callMerged executes a side-effect-free callee on all of its paths (a nested exploration
// with its own decision vectors) and merges the results into one value with ite, so that
// the caller continues on a single path: callee paths add up instead of multiplying.
func (e *Engine) callMerged(fn *ssa.Function, args []Value, env []Value, site ssa.CallInstruction) Value {
	rt := fn.Signature.Results()
	var resT types.Type
	switch rt.Len() {
	case 0:
		return e.callRaw(fn, args, env, site)
	case 1:
		resT = rt.At(0).Type()
	default:
		resT = rt
	}
	if !mergeableResult(resT) {
		return e.callRaw(fn, args, env, site)
	}
	symbolicArg := false
	for _, a := range args {
		if hasSymParts(a) {
			symbolicArg = true
		}
	}
	if !symbolicArg {
		return e.callRaw(fn, args, env, site)
	}
	// The summary is computed under the part of the path condition that only talks about
	// the arguments' variables (a weaker context gives a superset of callee paths, which is
	// sound) and cached per engine.
	argVars := map[*smt.Term]bool{}
	var keyb []byte
	keyb = append(keyb, fnKey(fn)...)
	for _, a := range args {
		keyb = appendValKey(keyb, a, argVars)
	}
	var ctxConj []*smt.Term
	for _, c := range e.pc {
		var fv []*smt.Term
		smt.FreeVars(c, map[*smt.Term]bool{}, &fv)
		ok := len(fv) > 0
		for _, v := range fv {
			if !argVars[v] {
				ok = false
				break
			}
		}
		if ok {
			ctxConj = append(ctxConj, c)
			keyb = append(keyb, fmt.Sprintf("|c%d", c.ID)...)
		}
	}
	key := string(keyb)
	if e.summaries == nil {
		e.summaries = map[string][]outcome{}
	}
	cacheable := len(env) == 0
	for _, a := range args {
		if hasRefs(a) {
			cacheable = false
		}
	}
	outs, cached := e.summaries[key]
	if !cached || !cacheable {
		outs = e.exploreCallee(fn, args, env, site, ctxConj)
		if cacheable {
			e.summaries[key] = outs
		}
	}
	var panicConds []*smt.Term
	panicMsg := ""
	var oks []outcome
	for _, o := range outs {
		if o.panic != "" {
			panicConds = append(panicConds, o.cond)
			panicMsg = o.panic
		} else {
			oks = append(oks, o)
		}
	}
	if len(panicConds) > 0 {
		if len(oks) == 0 {
			e.goPanic(panicMsg)
		}
		if e.choose([]*smt.Term{e.ctx.Not(e.ctx.Or(panicConds...)), e.ctx.Or(panicConds...)}, true) == 1 {
			e.goPanic(panicMsg)
		}
	}
	if len(oks) == 0 {
		e.abort(abortInfeasible, "summarised call has no feasible path")
	}
	res := oks[len(oks)-1].val
	for i := len(oks) - 2; i >= 0; i-- {
		res = e.iteAny(oks[i].cond, resT, oks[i].val, res)
	}
	return res
}

// hasRefs reports whether v reaches mutable heap state (then a summary cannot be cached).
func hasRefs(v Value) bool {
	switch x := v.(type) {
	case *Value, sliceV, *mapObj, *chanObj, *closure, *symPtr, *hostObj:
		return true
	case iface:
		return x.t != nil && hasRefs(x.v)
	case structV:
		for _, f := range x {
			if hasRefs(f) {
				return true
			}
		}
	case arrayV:
		for _, f := range x {
			if hasRefs(f) {
				return true
			}
		}
	}
	return false
}

type outcome struct {
	cond  *smt.Term
	val   Value
	panic string
}

func appendValKey(b []byte, v Value, vars map[*smt.Term]bool) []byte {
	switch x := v.(type) {
	case *smt.Term:
		var fv []*smt.Term
		smt.FreeVars(x, map[*smt.Term]bool{}, &fv)
		for _, f := range fv {
			vars[f] = true
		}
		return append(b, fmt.Sprintf("|t%d", x.ID)...)
	case *SymStr:
		for _, t := range x.b {
			b = appendValKey(b, t, vars)
		}
		return append(b, "|S"...)
	case structV:
		b = append(b, "|{"...)
		for _, f := range x {
			b = appendValKey(b, f, vars)
		}
		return append(b, '}')
	case arrayV:
		b = append(b, "|["...)
		for _, f := range x {
			b = appendValKey(b, f, vars)
		}
		return append(b, ']')
	case *Value:
		return append(b, fmt.Sprintf("|p%p", x)...)
	case iface:
		if x.t == nil {
			return append(b, "|nil"...)
		}
		b = append(b, ("|<" + x.t.String() + ">")...)
		return appendValKey(b, x.v, vars)
	case sliceV:
		b = append(b, fmt.Sprintf("|s%d", len(x.a))...)
		if len(x.a) > 0 {
			b = append(b, fmt.Sprintf("@%p", &x.a[0])...)
		}
		return b
	}
	return append(b, fmt.Sprintf("|%T:%v", v, v)...)
}

// exploreCallee runs fn on all its paths under the context conjuncts, on the auxiliary solver.
func (e *Engine) exploreCallee(fn *ssa.Function, args []Value, env []Value, site ssa.CallInstruction, ctxConj []*smt.Term) []outcome {
	// one auxiliary solver process per nesting level of summarised calls: a nested exploration
	// must not disturb the scopes of the exploration it is called from
	for len(e.auxSolvers) <= e.mergedDepth {
		s2, err := smt.NewSolver(e.cfg.SolverKind, e.cfg.SolverTimeout)
		if err != nil {
			e.abort(abortEngine, "cannot start auxiliary solver: "+err.Error())
		}
		e.auxSolvers = append(e.auxSolvers, s2)
	}
	aux := e.auxSolvers[e.mergedDepth]
	m1, m2, m3 := len(e.undo), len(e.mapUndo), len(e.chanUndo)
	savedDec, savedPos, savedWork := e.decisions, e.pos, e.newWork
	savedBind, savedPC, savedAsserted, savedSolver := e.bind, e.pc, e.asserted, e.solver
	savedStack, savedDepth := len(e.stack), e.depth
	nInputs := len(e.inputs)
	e.mergedDepth++
	e.solver = aux
	base := append([]*smt.Term{}, ctxConj...)
	startPC := len(base)

	var outs []outcome
	var fatal *pathAbort
	work := [][]int{{}}
	for len(work) > 0 && fatal == nil {
		prefix := work[len(work)-1]
		work = work[:len(work)-1]
		e.decisions, e.pos, e.newWork = append([]int{}, prefix...), 0, nil
		e.bind = map[*smt.Term]*smt.Term{}
		e.substMemo = map[*smt.Term]*smt.Term{}
		e.pc = append([]*smt.Term{}, base...)
		for _, c := range base {
			e.learn(c)
		}
		e.asserted = 0
		e.solver.Push()
		var val Value
		var ab *pathAbort
		func() {
			defer func() {
				if r := recover(); r != nil {
					pa, ok := r.(pathAbort)
					if !ok {
						panic(r)
					}
					ab = &pa
				}
			}()
			val = e.callRaw(fn, args, env, site)
		}()
		cond := e.ctx.And(e.pc[startPC:]...)
		for e.solver.Level() > 0 {
			e.solver.Pop()
		}
		e.solver.Lost = false
		e.rollbackTo(m1, m2, m3)
		e.stack, e.depth = e.stack[:savedStack], savedDepth
		work = append(work, e.newWork...)
		e.Stats.Paths++
		switch {
		case ab == nil:
			outs = append(outs, outcome{cond: cond, val: val})
		case ab.kind == abortInfeasible:
		case ab.kind == abortPanic:
			outs = append(outs, outcome{cond: cond, panic: ab.msg})
		default:
			fatal = ab
		}
	}
	// completeness of the summary: under the context, the outcome conditions must cover
	// every argument value (guards against a lost callee path)
	if fatal == nil {
		var conds []*smt.Term
		for _, o := range outs {
			conds = append(conds, o.cond)
		}
		aux.Push()
		for _, c := range base {
			aux.Assert(c)
		}
		r := aux.Check(e.ctx.Not(e.ctx.Or(conds...)))
		if r == smt.Sat {
			aux.EndCheck()
		}
		for aux.Level() > 0 {
			aux.Pop()
		}
		aux.Lost = false
		if r != smt.Unsat {
			fatal = &pathAbort{abortEngine, "summary of " + fnKey(fn) + " does not cover all argument values (" + r.String() + ")"}
		}
	}
	e.mergedDepth--
	e.solver = savedSolver
	e.decisions, e.pos, e.newWork = savedDec, savedPos, savedWork
	e.bind, e.pc, e.asserted = savedBind, savedPC, savedAsserted
	e.substMemo = map[*smt.Term]*smt.Term{}
	if len(e.inputs) != nInputs {
		e.abort(abortEngine, "summarised function created nondeterministic inputs: "+fnKey(fn))
	}
	if fatal != nil {
		panic(*fatal)
	}
	return outs
}

func mergeableResult(t types.Type) bool {
	if tp, ok := t.(*types.Tuple); ok {
		for i := 0; i < tp.Len(); i++ {
			if !mergeable(tp.At(i).Type()) {
				return false
			}
		}
		return true
	}
	return mergeable(t)
}

// iteAny is ite extended to result tuples.
func (e *Engine) iteAny(c *smt.Term, t types.Type, a, b Value) Value {
	if tp, ok := t.(*types.Tuple); ok {
		at, bt := a.(tuple), b.(tuple)
		out := make(tuple, len(at))
		for i := range at {
			out[i] = e.ite(c, tp.At(i).Type(), at[i], bt[i])
		}
		return out
	}
	return e.ite(c, t, a, b)
}

var _ = fmt.Sprintf
