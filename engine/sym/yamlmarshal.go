package sym

import (
	"fmt"
	"go/types"
	"sort"

	"crdverif/smt"

	"golang.org/x/tools/go/ssa"
	yaml "gopkg.in/yaml.v3"
)

// ynode is a marshalled YAML document kept as a tree whose scalar leaves may be symbolic.
type ynode struct {
	kind    int // 0 null, 1 scalar, 2 seq, 3 map
	style   yaml.Style
	tag     string // "" on a scalar: hand-built untagged node, resolved from its text when read back
	val     Value  // scalar: string (str) or int64/uint64/bool/float64 or *smt.Term / *SymStr
	valT    types.Type
	items   []*ynode
	keys    []string
	keyTags []string // nil, or per key the tag of a hand-built key node ("" = untagged)
}

type ydoc struct {
	root *ynode
}

func (e *Engine) hasMarshalYAML(t types.Type) *ssa.Function {
	m := e.findMethod(t, "MarshalYAML")
	if m == nil {
		return nil
	}
	sig := m.Signature
	if sig.Params().Len() == 0 && sig.Results().Len() == 2 {
		return m
	}
	return nil
}

func (e *Engine) yIsZero(t types.Type, v Value) bool {
	switch u := under(t).(type) {
	case *types.Pointer:
		p, ok := v.(*Value)
		return ok && p == nil
	case *types.Slice:
		return len(v.(sliceV).a) == 0
	case *types.Map:
		m := v.(*mapObj)
		return m == nil || len(m.entries) == 0
	case *types.Interface:
		return v.(iface).t == nil
	case *types.Basic:
		if t0, ok := v.(*smt.Term); ok {
			// decide emptiness by forking
			var z *smt.Term
			switch t0.S.K {
			case smt.KBool:
				z = e.ctx.Not(t0)
			case smt.KBV:
				z = e.ctx.Eq(t0, e.ctx.BVConst(t0.S.W, 0))
			default:
				z = e.ctx.FEq(t0, e.ctx.FPConst(0))
			}
			return e.branch(e.lowerBool(z))
		}
		if ss, ok := v.(*SymStr); ok {
			return len(ss.b) == 0
		}
		switch x := v.(type) {
		case string:
			return x == ""
		case bool:
			return !x
		case int64:
			return x == 0
		case uint64:
			return x == 0
		case float64:
			return x == 0
		}
	case *types.Struct:
		sv := v.(structV)
		for i := 0; i < u.NumFields(); i++ {
			if !u.Field(i).Exported() {
				continue
			}
			if !e.yIsZero(u.Field(i).Type(), sv[i]) {
				return false
			}
		}
		return true
	case *types.Array:
		return u.Len() == 0
	}
	return false
}

func (e *Engine) ymarshal(t types.Type, v Value, depth int) (*ynode, Value) {
	if depth > 50 {
		e.abort(abortEngine, "yaml marshal: nesting too deep")
	}
	if pt, ok := under(t).(*types.Pointer); ok {
		p, _ := v.(*Value)
		if p == nil {
			return &ynode{kind: 0}, nil
		}
		if types.Identical(pt.Elem(), e.yamlNodeType()) {
			return e.ymarshalNode(p, depth), nil
		}
		if m := e.hasMarshalYAML(t); m != nil {
			return e.ymarshalVia(m, v, depth)
		}
		return e.ymarshal(pt.Elem(), *p, depth+1)
	}
	if it, ok := under(t).(*types.Interface); ok {
		_ = it
		iv := v.(iface)
		if iv.t == nil {
			return &ynode{kind: 0}, nil
		}
		return e.ymarshal(iv.t, iv.v, depth+1)
	}
	if m := e.hasMarshalYAML(t); m != nil {
		return e.ymarshalVia(m, v, depth)
	}
	switch u := under(t).(type) {
	case *types.Struct:
		sv := v.(structV)
		n := &ynode{kind: 3}
		for _, f := range yamlFields(u) {
			ft := u.Field(f.index).Type()
			if f.inline {
				e.abort(abortEngine, "yaml inline fields not modelled")
			}
			if f.omitempty && e.yIsZero(ft, sv[f.index]) {
				continue
			}
			c, er := e.ymarshal(ft, sv[f.index], depth+1)
			if er != nil {
				return nil, er
			}
			n.keys = append(n.keys, f.key)
			n.items = append(n.items, c)
		}
		return n, nil
	case *types.Slice:
		s := v.(sliceV)
		n := &ynode{kind: 2}
		for _, x := range s.a {
			c, er := e.ymarshal(u.Elem(), x, depth+1)
			if er != nil {
				return nil, er
			}
			n.items = append(n.items, c)
		}
		return n, nil
	case *types.Array:
		n := &ynode{kind: 2}
		for _, x := range v.(arrayV) {
			c, er := e.ymarshal(u.Elem(), x, depth+1)
			if er != nil {
				return nil, er
			}
			n.items = append(n.items, c)
		}
		return n, nil
	case *types.Map:
		m := v.(*mapObj)
		n := &ynode{kind: 3}
		if m == nil {
			return n, nil
		}
		type kv struct {
			k string
			v Value
		}
		var kvs []kv
		for _, en := range m.entries {
			ks, ok := en.k.(string)
			if !ok {
				e.abort(abortEngine, "yaml marshal: map with non-string or symbolic keys")
			}
			kvs = append(kvs, kv{ks, en.v})
		}
		sort.Slice(kvs, func(i, j int) bool { return kvs[i].k < kvs[j].k })
		for _, x := range kvs {
			c, er := e.ymarshal(u.Elem(), x.v, depth+1)
			if er != nil {
				return nil, er
			}
			n.keys = append(n.keys, x.k)
			n.items = append(n.items, c)
		}
		return n, nil
	case *types.Basic:
		n := &ynode{kind: 1, val: v, valT: t}
		switch {
		case isStringT(u):
			n.tag = "!!str"
		case isBoolT(u):
			n.tag = "!!bool"
		case isFloat(u):
			n.tag = "!!float"
		default:
			n.tag = "!!int"
		}
		return n, nil
	}
	e.abort(abortEngine, fmt.Sprintf("yaml marshal of %v not modelled", t))
	return nil, nil
}

// ymarshalNode converts a yaml.Node built by the program (e.g. returned from MarshalYAML) into
// the tree. Tags are kept as written: an untagged scalar is printed plain by the library and
// resolved again from its text by whoever reads the document.
func (e *Engine) ymarshalNode(p *Value, depth int) *ynode {
	if depth > 50 {
		e.abort(abortEngine, "yaml marshal: node nesting too deep")
	}
	st := under(e.yamlNodeType()).(*types.Struct)
	sv := (*p).(structV)
	var kind yaml.Kind
	var style yaml.Style
	var tag string
	var val Value = ""
	var content []Value
	for i := 0; i < st.NumFields(); i++ {
		switch st.Field(i).Name() {
		case "Kind":
			kind = yaml.Kind(asU64(sv[i]))
		case "Style":
			style = yaml.Style(asU64(sv[i]))
		case "Tag":
			t, ok := sv[i].(string)
			if !ok {
				e.abort(abortEngine, "yaml marshal: symbolic node tag")
			}
			tag = t
		case "Value":
			val = sv[i]
		case "Content":
			content = sv[i].(sliceV).a
		}
	}
	child := func(c Value) *ynode {
		cp, _ := c.(*Value)
		if cp == nil {
			e.nilDeref()
		}
		return e.ymarshalNode(cp, depth+1)
	}
	switch kind {
	case yaml.ScalarNode, 0:
		return &ynode{kind: 1, tag: tag, style: style, val: val, valT: types.Typ[types.String]}
	case yaml.SequenceNode:
		n := &ynode{kind: 2}
		for _, c := range content {
			n.items = append(n.items, child(c))
		}
		return n
	case yaml.MappingNode:
		n := &ynode{kind: 3}
		for i := 0; i+1 < len(content); i += 2 {
			k := child(content[i])
			ks, ok := k.val.(string)
			if k.kind != 1 || !ok {
				e.abort(abortEngine, "yaml marshal: node mapping with a non-scalar or symbolic key")
			}
			n.keys = append(n.keys, ks)
			n.keyTags = append(n.keyTags, k.tag)
			n.items = append(n.items, child(content[i+1]))
		}
		return n
	case yaml.DocumentNode:
		if len(content) == 1 {
			return child(content[0])
		}
	}
	e.abort(abortEngine, "yaml marshal: node kind not modelled")
	return nil
}

func (e *Engine) ymarshalVia(m *ssa.Function, recv Value, depth int) (*ynode, Value) {
	r := e.call(m, []Value{recv}, nil).(tuple)
	if er, ok := r[1].(iface); ok && er.t != nil {
		return nil, er
	}
	res := r[0].(iface)
	if res.t == nil {
		return &ynode{kind: 0}, nil
	}
	// a Marshaler returning itself would loop; crd's return plain strings/ints
	if e.hasMarshalYAML(res.t) != nil && depth > 10 {
		e.abort(abortEngine, "yaml marshal: MarshalYAML chain too deep")
	}
	return e.ymarshal(res.t, res.v, depth+1)
}

func (n *ynode) concrete() bool {
	if n.kind == 1 && isSym(n.val) {
		return false
	}
	for _, c := range n.items {
		if !c.concrete() {
			return false
		}
	}
	return true
}

// native converts a fully concrete tree to a yaml.Node for real serialisation.
func (n *ynode) native() *yaml.Node {
	switch n.kind {
	case 0:
		return &yaml.Node{Kind: yaml.ScalarNode, Tag: "!!null", Value: "null"}
	case 1:
		out := &yaml.Node{Kind: yaml.ScalarNode, Tag: n.tag, Style: n.style}
		switch x := n.val.(type) {
		case string:
			out.Value = x
		default:
			out.Value = fmt.Sprintf("%v", x)
		}
		return out
	case 2:
		out := &yaml.Node{Kind: yaml.SequenceNode, Tag: "!!seq"}
		for _, c := range n.items {
			out.Content = append(out.Content, c.native())
		}
		return out
	default:
		out := &yaml.Node{Kind: yaml.MappingNode, Tag: "!!map"}
		for i, c := range n.items {
			kt := "!!str"
			if n.keyTags != nil {
				kt = n.keyTags[i]
			}
			out.Content = append(out.Content, &yaml.Node{Kind: yaml.ScalarNode, Tag: kt, Value: n.keys[i]}, c.native())
		}
		return out
	}
}

// ydecodeDoc decodes a marshalled tree (with symbolic leaves) into dst of type t.
func (e *Engine) ydecodeDoc(d *ydoc, t types.Type, dst *Value) Value {
	var errs []string
	er := e.ydecodeTree(d.root, t, dst, &errs)
	return e.finishDecode(er, errs)
}

func (e *Engine) scalarNodeFor(n *ynode) *Value {
	// engine-level yaml.Node carrying the (possibly symbolic) text of a scalar
	nt := e.yamlNodeType()
	st := under(nt).(*types.Struct)
	sv := e.zero(nt).(structV)
	var text Value
	switch x := n.val.(type) {
	case string, *SymStr:
		text = x
	case *smt.Term:
		if x.S.K == smt.KBV {
			if _, signed, _ := intInfo(n.valT); signed {
				text = e.callModel("FormatInt", e.conv(types.Typ[types.Int], n.valT, x))
			} else {
				text = e.callModel("FormatUint", e.conv(types.Typ[types.Uint], n.valT, x))
			}
		} else {
			e.abort(abortEngine, "yaml: symbolic bool/float scalar text")
		}
	default:
		text = fmt.Sprintf("%v", x)
	}
	for i := 0; i < st.NumFields(); i++ {
		switch st.Field(i).Name() {
		case "Kind":
			sv[i] = uint64(yaml.ScalarNode)
		case "Tag":
			sv[i] = n.tag
		case "Value":
			sv[i] = text
		}
	}
	cell := new(Value)
	*cell = sv
	return cell
}

// treeNodeFor builds the engine-level yaml.Node of a non-scalar subtree with symbolic leaves
// (kind and content only; Decode on it is answered from the subtree itself).
func (e *Engine) treeNodeFor(n *ynode) *Value {
	if n.kind == 1 {
		return e.scalarNodeFor(n)
	}
	nt := e.yamlNodeType()
	st := under(nt).(*types.Struct)
	sv := e.zero(nt).(structV)
	var content []Value
	kind := yaml.ScalarNode
	tag := "!!null"
	switch n.kind {
	case 2:
		kind, tag = yaml.SequenceNode, "!!seq"
		for _, c := range n.items {
			content = append(content, e.treeNodeFor(c))
		}
	case 3:
		kind, tag = yaml.MappingNode, "!!map"
		for i, c := range n.items {
			content = append(content, e.scalarNodeFor(&ynode{kind: 1, tag: "!!str", val: n.keys[i], valT: types.Typ[types.String]}), e.treeNodeFor(c))
		}
	}
	for i := 0; i < st.NumFields(); i++ {
		switch st.Field(i).Name() {
		case "Kind":
			sv[i] = uint64(kind)
		case "Tag":
			sv[i] = tag
		case "Value":
			if n.kind == 0 {
				sv[i] = "null"
			}
		case "Content":
			sv[i] = sliceV{a: content}
		}
	}
	cell := new(Value)
	*cell = sv
	e.yside().trees[cell] = n
	return cell
}

func (e *Engine) ydecodeTree(n *ynode, t types.Type, dst *Value, errs *[]string) Value {
	if n.concrete() {
		return e.ydecode(n.native(), t, dst, errs)
	}
	if pt, ok := under(t).(*types.Pointer); ok {
		cell, _ := (*dst).(*Value)
		if cell == nil {
			cell = new(Value)
			*cell = e.zero(pt.Elem())
			e.set(dst, cell)
		}
		return e.ydecodeTree(n, pt.Elem(), cell, errs)
	}
	if m := e.hasUnmarshalYAML(t); m != nil {
		var node *Value
		if n.kind == 1 {
			node = e.scalarNodeFor(n)
		} else {
			node = e.treeNodeFor(n)
		}
		r := e.call(m, []Value{dst, node}, nil)
		if ri, ok := r.(iface); ok && ri.t != nil {
			return ri
		}
		return iface{}
	}
	typeErr := func() Value {
		*errs = append(*errs, fmt.Sprintf("cannot unmarshal into %v", t))
		return iface{}
	}
	switch u := under(t).(type) {
	case *types.Struct:
		if n.kind != 3 {
			return typeErr()
		}
		fields := yamlFields(u)
		sv := (*dst).(structV)
		for i, k := range n.keys {
			for _, f := range fields {
				if f.key == k {
					if er := e.ydecodeTree(n.items[i], u.Field(f.index).Type(), &sv[f.index], errs); er.(iface).t != nil {
						return er
					}
				}
			}
		}
		return iface{}
	case *types.Slice:
		if n.kind != 2 {
			return typeErr()
		}
		a := make([]Value, len(n.items))
		for i := range a {
			a[i] = e.zero(u.Elem())
		}
		for i, c := range n.items {
			if er := e.ydecodeTree(c, u.Elem(), &a[i], errs); er.(iface).t != nil {
				return er
			}
		}
		e.set(dst, sliceV{a: a})
		return iface{}
	case *types.Map:
		if n.kind != 3 {
			return typeErr()
		}
		m, _ := (*dst).(*mapObj)
		if m == nil {
			m = &mapObj{keyT: u.Key(), valT: u.Elem(), idxFor: -1}
			e.set(dst, m)
		}
		for i, k := range n.keys {
			vc := new(Value)
			*vc = e.zero(u.Elem())
			if er := e.ydecodeTree(n.items[i], u.Elem(), vc, errs); er.(iface).t != nil {
				return er
			}
			e.mapUpdate(m, k, *vc)
		}
		return iface{}
	case *types.Basic:
		if n.kind != 1 {
			return typeErr()
		}
		switch {
		case isStringT(u):
			switch x := n.val.(type) {
			case string, *SymStr:
				if ss, sym := x.(*SymStr); sym && n.tag == "" && n.style&(yaml.DoubleQuotedStyle|yaml.SingleQuotedStyle|yaml.LiteralStyle|yaml.FoldedStyle) == 0 {
					// an untagged plain scalar is resolved from its text when read back: the
					// spellings of null decode to the empty string, everything else (numbers and
					// booleans included) decodes into a string target as the text itself
					for _, nul := range []string{"~", "null", "Null", "NULL"} {
						if len(nul) != len(ss.b) {
							continue
						}
						eq := e.ctx.True
						for i := range ss.b {
							eq = e.ctx.And(eq, e.ctx.Eq(ss.b[i], e.ctx.BVConst(8, uint64(nul[i]))))
						}
						if e.branch(e.lowerBool(eq)) {
							e.set(dst, "")
							return iface{}
						}
					}
				}
				e.set(dst, x)
				return iface{}
			}
		default:
			if _, _, ok := intInfo(u); ok && n.tag == "!!int" {
				e.set(dst, e.conv(t, n.valT, n.val))
				return iface{}
			}
		}
	}
	e.abort(abortEngine, fmt.Sprintf("yaml: decoding a symbolic subtree into %v not modelled", t))
	return nil
}

func registerYAMLMarshal(e *Engine) {
	e.intr[yamlPkg+".Marshal"] = func(e *Engine, fr *frame, args []Value, site ssa.CallInstruction) Value {
		in := args[0].(iface)
		if in.t == nil {
			return tuple{sliceV{a: e.strToByteVals("null\n")}, iface{}}
		}
		root, er := e.ymarshal(in.t, in.v, 0)
		if er != nil {
			return tuple{sliceV{nil: true}, er}
		}
		if root.concrete() {
			b, err := yaml.Marshal(root.native())
			if err != nil {
				return tuple{sliceV{nil: true}, e.newErr(err.Error())}
			}
			return tuple{sliceV{a: e.strToByteVals(string(b))}, iface{}}
		}
		// symbolic leaves: the text cannot be produced; hand out a placeholder whose
		// identity leads Unmarshal back to the tree (node-tree level round trip)
		bs := e.strToByteVals("#crdverif: document with symbolic scalars\n")
		out := sliceV{a: bs}
		e.yside().docs[&out.a[0]] = &ydoc{root: root}
		return tuple{out, iface{}}
	}
}
