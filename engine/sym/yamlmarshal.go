package sym

import "go/types"

type ydoc struct{}

func (e *Engine) ydecodeDoc(d *ydoc, t types.Type, dst *Value) Value {
	e.abort(abortEngine, "yaml document round trip not modelled yet")
	return nil
}

func registerYAMLMarshal(e *Engine) {}
