package sym

import (
	"fmt"
	"go/ast"
	"go/token"
	"os"
	"path/filepath"
	"sort"
	"strings"

	"golang.org/x/tools/go/packages"
	"golang.org/x/tools/go/ssa"
	"golang.org/x/tools/go/ssa/ssautil"
)

const Module = "github.com/berquerant/crd"

// Program is the SSA form of /repo's current working tree plus the overlay harness files.
type Program struct {
	SSA      *ssa.Program
	Fset     *token.FileSet
	Pkgs     map[string]*ssa.Package // by import path
	Embeds   map[string][]byte       // "pkgpath.var" -> file contents
	RepoDir  string
	Overlay  map[string][]byte
	Harness  map[string]*ssa.Function // "pkgpath.VerifXxx"
	LoadTime float64
	// Dropped lists overlay (harness) files that do not compile against this tree — e.g. a
	// white-box lemma after an internal rename — with the first error of each; they were left
	// out so that the remaining harnesses still run.
	Dropped map[string]string
}

// BuildOverlay maps every file under harnessDir onto the same relative path under repoDir.
func BuildOverlay(harnessDir, repoDir string) (map[string][]byte, error) {
	ov := map[string][]byte{}
	err := filepath.Walk(harnessDir, func(p string, info os.FileInfo, err error) error {
		if err != nil {
			return err
		}
		if info.IsDir() || !strings.HasSuffix(p, ".go") {
			return nil
		}
		rel, _ := filepath.Rel(harnessDir, p)
		b, err := os.ReadFile(p)
		if err != nil {
			return err
		}
		ov[filepath.Join(repoDir, rel)] = b
		return nil
	})
	return ov, err
}

// Load type-checks the repository with the overlay. Overlay files with errors are dropped one
// round at a time (a dropped helper file can make its dependants fail in the next round);
// errors in the repository's own files are fatal.
func Load(repoDir string, overlay map[string][]byte) (*Program, error) {
	ov := map[string][]byte{}
	for k, v := range overlay {
		ov[k] = v
	}
	dropped := map[string]string{}
	for round := 0; ; round++ {
		p, bad, err := loadOnce(repoDir, ov)
		if err == nil {
			p.Dropped = dropped
			return p, nil
		}
		if len(bad) == 0 || round > 12 {
			return nil, err
		}
		for f, msg := range bad {
			delete(ov, f)
			dropped[f] = msg
		}
	}
}

// loadOnce returns the program, or the overlay files named in type errors (if every error is
// in an overlay file) together with the error.
func loadOnce(repoDir string, overlay map[string][]byte) (*Program, map[string]string, error) {
	cfg := &packages.Config{
		Mode:    packages.LoadAllSyntax,
		Dir:     repoDir,
		Env:     append(os.Environ(), "GOFLAGS=-mod=mod", "GOPROXY=off"),
		Overlay: overlay,
		Tests:   false,
	}
	pkgs, err := packages.Load(cfg, "./...")
	if err != nil {
		return nil, nil, err
	}
	var errs []string
	bad := map[string]string{}
	foreign := false
	packages.Visit(pkgs, nil, func(p *packages.Package) {
		for _, e := range p.Errors {
			errs = append(errs, e.Error())
			file := e.Pos
			if i := strings.Index(file, ":"); i >= 0 {
				file = file[:i]
			}
			if !filepath.IsAbs(file) {
				file = filepath.Join(repoDir, file)
			}
			if _, isOverlay := overlay[file]; isOverlay {
				if _, seen := bad[file]; !seen {
					bad[file] = e.Error()
				}
			} else {
				foreign = true
			}
		}
	})
	if len(errs) > 0 {
		sort.Strings(errs)
		if len(errs) > 10 {
			errs = errs[:10]
		}
		if foreign {
			bad = nil
		}
		return nil, bad, fmt.Errorf("package errors:\n%s", strings.Join(errs, "\n"))
	}
	prog, _ := ssautil.AllPackages(pkgs, ssa.InstantiateGenerics)
	prog.Build()
	p := &Program{SSA: prog, Pkgs: map[string]*ssa.Package{}, Embeds: map[string][]byte{}, RepoDir: repoDir, Overlay: overlay, Harness: map[string]*ssa.Function{}}
	for _, sp := range prog.AllPackages() {
		p.Pkgs[sp.Pkg.Path()] = sp
	}
	// embed directives and harness discovery in module packages
	packages.Visit(pkgs, nil, func(pk *packages.Package) {
		if !strings.HasPrefix(pk.PkgPath, Module) {
			return
		}
		p.Fset = pk.Fset
		for i, f := range pk.Syntax {
			dir := filepath.Dir(pk.CompiledGoFiles[i])
			for _, d := range f.Decls {
				gd, ok := d.(*ast.GenDecl)
				if !ok || gd.Tok != token.VAR {
					continue
				}
				for _, spec := range gd.Specs {
					vs := spec.(*ast.ValueSpec)
					doc := vs.Doc
					if doc == nil {
						doc = gd.Doc
					}
					if doc == nil {
						continue
					}
					for _, c := range doc.List {
						if strings.HasPrefix(c.Text, "//go:embed ") {
							name := strings.TrimSpace(strings.TrimPrefix(c.Text, "//go:embed "))
							b, err := os.ReadFile(filepath.Join(dir, name))
							if err == nil && len(vs.Names) == 1 {
								p.Embeds[pk.PkgPath+"."+vs.Names[0].Name] = b
							}
						}
					}
				}
			}
		}
		sp := p.Pkgs[pk.PkgPath]
		if sp == nil {
			return
		}
		for name, m := range sp.Members {
			if fn, ok := m.(*ssa.Function); ok && strings.HasPrefix(name, "Verif") {
				p.Harness[pk.PkgPath+"."+name] = fn
			}
		}
	})
	return p, nil, nil
}
