package sym

func registerYAML(e *Engine) {}
