package sym

import (
	"fmt"
	"go/types"
	"reflect"
	"strings"

	"golang.org/x/tools/go/ssa"
	yaml "gopkg.in/yaml.v3"
)

// yaml.v3 is modelled at the node-tree level: text is parsed by the real library into
// yaml.Node trees, containers are walked here following crd's struct tags and calling
// crd's UnmarshalYAML/MarshalYAML methods in the engine, scalar leaves are converted by
// the real library.

const yamlPkg = "gopkg.in/yaml.v3"

type yamlSide struct {
	nodes map[*Value]*yaml.Node // engine *yaml.Node cell -> native node
	docs  map[*Value]*ydoc      // first byte cell of a marshalled document -> tree
	trees map[*Value]*ynode     // engine *yaml.Node cell handed to an UnmarshalYAML -> its (symbolic) subtree
}

func (e *Engine) yside() *yamlSide {
	s, _ := e.hostState["yaml"].(*yamlSide)
	if s == nil {
		s = &yamlSide{nodes: map[*Value]*yaml.Node{}, docs: map[*Value]*ydoc{}, trees: map[*Value]*ynode{}}
		e.hostState["yaml"] = s
	}
	return s
}

func (e *Engine) yamlNodeType() *types.Named {
	return e.prog.Pkgs[yamlPkg].Type("Node").Type().(*types.Named)
}

// engineNode builds the engine value of a *yaml.Node for a native node.
func (e *Engine) engineNode(n *yaml.Node) *Value {
	nt := e.yamlNodeType()
	st := under(nt).(*types.Struct)
	sv := e.zero(nt).(structV)
	for i := 0; i < st.NumFields(); i++ {
		switch st.Field(i).Name() {
		case "Kind":
			sv[i] = uint64(n.Kind)
		case "Style":
			sv[i] = uint64(n.Style)
		case "Tag":
			sv[i] = n.Tag
		case "Value":
			sv[i] = n.Value
		case "Anchor":
			sv[i] = n.Anchor
		case "Line":
			sv[i] = int64(n.Line)
		case "Column":
			sv[i] = int64(n.Column)
		case "Content":
			a := make([]Value, len(n.Content))
			for k, c := range n.Content {
				a[k] = e.engineNode(c)
			}
			sv[i] = sliceV{a: a}
		}
	}
	cell := new(Value)
	*cell = sv
	e.yside().nodes[cell] = n
	return cell
}

// nativeNode recovers (or rebuilds) the native node behind an engine *yaml.Node. For a
// harness-built scalar node with a symbolic Value it returns nil and the Value.
func (e *Engine) nativeNode(p *Value) (*yaml.Node, Value) {
	if n, ok := e.yside().nodes[p]; ok {
		return n, nil
	}
	st := under(e.yamlNodeType()).(*types.Struct)
	sv := (*p).(structV)
	n := &yaml.Node{}
	for i := 0; i < st.NumFields(); i++ {
		switch st.Field(i).Name() {
		case "Kind":
			n.Kind = yaml.Kind(asU64(sv[i]))
		case "Tag":
			n.Tag, _ = sv[i].(string)
		case "Value":
			s, ok := sv[i].(string)
			if !ok {
				return nil, sv[i]
			}
			n.Value = s
		case "Content":
			for _, c := range sv[i].(sliceV).a {
				cn, symv := e.nativeNode(c.(*Value))
				if cn == nil {
					return nil, symv
				}
				n.Content = append(n.Content, cn)
			}
		}
	}
	if n.Kind == 0 {
		n.Kind = yaml.ScalarNode
	}
	return n, nil
}

func (e *Engine) hasUnmarshalYAML(t types.Type) *ssa.Function {
	var pt types.Type = types.NewPointer(t)
	if _, ok := under(t).(*types.Pointer); ok {
		pt = t
	}
	m := e.findMethod(pt, "UnmarshalYAML")
	if m == nil {
		return nil
	}
	sig := m.Signature
	if sig.Params().Len() == 1 && sig.Results().Len() == 1 {
		if p, ok := sig.Params().At(0).Type().(*types.Pointer); ok {
			if nm, ok := p.Elem().(*types.Named); ok && nm.Obj().Name() == "Node" {
				return m
			}
		}
	}
	return nil
}

type yamlFieldInfo struct {
	index     int
	key       string
	omitempty bool
	inline    bool
}

func yamlFields(st *types.Struct) []yamlFieldInfo {
	var out []yamlFieldInfo
	for i := 0; i < st.NumFields(); i++ {
		f := st.Field(i)
		if !f.Exported() {
			continue
		}
		tag := reflect.StructTag(st.Tag(i)).Get("yaml")
		if tag == "" && !strings.Contains(st.Tag(i), ":") && st.Tag(i) != "" {
			tag = st.Tag(i)
		}
		parts := strings.Split(tag, ",")
		fi := yamlFieldInfo{index: i, key: parts[0]}
		if fi.key == "-" {
			continue
		}
		for _, o := range parts[1:] {
			switch o {
			case "omitempty":
				fi.omitempty = true
			case "inline":
				fi.inline = true
			}
		}
		if fi.key == "" {
			fi.key = strings.ToLower(f.Name())
		}
		out = append(out, fi)
	}
	return out
}

// ydecode decodes node n into the cell dst of static type t. It returns an error value
// (iface) or nil iface.
func (e *Engine) ydecode(n *yaml.Node, t types.Type, dst *Value, errs *[]string) Value {
	for n.Kind == yaml.AliasNode {
		n = n.Alias
	}
	if n.Kind == yaml.DocumentNode {
		if len(n.Content) == 0 {
			return iface{}
		}
		return e.ydecode(n.Content[0], t, dst, errs)
	}
	isNull := n.Kind == yaml.ScalarNode && n.ShortTag() == "!!null"
	if pt, ok := under(t).(*types.Pointer); ok {
		if isNull {
			e.set(dst, (*Value)(nil))
			return iface{}
		}
		if m := e.hasUnmarshalYAML(t); m != nil && false {
			_ = m
		}
		cell, _ := (*dst).(*Value)
		if cell == nil {
			cell = new(Value)
			*cell = e.zero(pt.Elem())
			e.set(dst, cell)
		}
		return e.ydecode(n, pt.Elem(), cell, errs)
	}
	if m := e.hasUnmarshalYAML(t); m != nil {
		if isNull {
			// yaml.v3 skips the unmarshaler for null unless it is a pointer-to-pointer case
			e.store(t, dst, e.zero(t))
			return iface{}
		}
		en := e.engineNode(n)
		r := e.call(m, []Value{dst, en}, nil)
		if ri, ok := r.(iface); ok && ri.t != nil {
			return ri
		}
		return iface{}
	}
	if isNull {
		e.store(t, dst, e.zero(t))
		return iface{}
	}
	typeErr := func() Value {
		*errs = append(*errs, fmt.Sprintf("line %d: cannot unmarshal %s into %v", n.Line, n.ShortTag(), t))
		return iface{}
	}
	switch u := under(t).(type) {
	case *types.Struct:
		if n.Kind != yaml.MappingNode {
			return typeErr()
		}
		fields := yamlFields(u)
		sv, ok := (*dst).(structV)
		if !ok {
			e.set(dst, e.zero(t))
			sv = (*dst).(structV)
		}
		seen := map[string]bool{}
		for i := 0; i+1 < len(n.Content); i += 2 {
			kn := n.Content[i]
			if kn.Kind != yaml.ScalarNode {
				continue
			}
			if seen[kn.Value] {
				return e.newErr(fmt.Sprintf("yaml: line %d: mapping key %q already defined", kn.Line, kn.Value))
			}
			seen[kn.Value] = true
			for _, f := range fields {
				if f.inline {
					e.abort(abortEngine, "yaml inline fields not modelled")
				}
				if f.key == kn.Value {
					if er := e.ydecode(n.Content[i+1], u.Field(f.index).Type(), &sv[f.index], errs); er.(iface).t != nil {
						return er
					}
				}
			}
		}
		return iface{}
	case *types.Slice:
		if n.Kind != yaml.SequenceNode {
			return typeErr()
		}
		a := make([]Value, len(n.Content))
		for i := range a {
			a[i] = e.zero(u.Elem())
		}
		for i, c := range n.Content {
			if er := e.ydecode(c, u.Elem(), &a[i], errs); er.(iface).t != nil {
				return er
			}
		}
		e.set(dst, sliceV{a: a})
		return iface{}
	case *types.Array:
		if n.Kind != yaml.SequenceNode || int64(len(n.Content)) != u.Len() {
			return typeErr()
		}
		av := (*dst).(arrayV)
		for i, c := range n.Content {
			if er := e.ydecode(c, u.Elem(), &av[i], errs); er.(iface).t != nil {
				return er
			}
		}
		return iface{}
	case *types.Map:
		if n.Kind != yaml.MappingNode {
			return typeErr()
		}
		m, _ := (*dst).(*mapObj)
		if m == nil {
			m = &mapObj{keyT: u.Key(), valT: u.Elem(), idxFor: -1}
			e.set(dst, m)
		}
		for i := 0; i+1 < len(n.Content); i += 2 {
			kc, vc := new(Value), new(Value)
			*kc, *vc = e.zero(u.Key()), e.zero(u.Elem())
			if er := e.ydecode(n.Content[i], u.Key(), kc, errs); er.(iface).t != nil {
				return er
			}
			if er := e.ydecode(n.Content[i+1], u.Elem(), vc, errs); er.(iface).t != nil {
				return er
			}
			e.mapUpdate(m, *kc, *vc)
		}
		return iface{}
	case *types.Basic:
		if n.Kind != yaml.ScalarNode {
			return typeErr()
		}
		switch {
		case isStringT(u):
			var s string
			if err := n.Decode(&s); err != nil {
				return typeErr()
			}
			e.set(dst, s)
		case isBoolT(u):
			var b bool
			if err := n.Decode(&b); err != nil {
				return typeErr()
			}
			e.set(dst, b)
		case isFloat(u):
			var f float64
			if err := n.Decode(&f); err != nil {
				return typeErr()
			}
			e.set(dst, f)
		default:
			w, signed, ok := intInfo(u)
			if !ok {
				e.abort(abortEngine, fmt.Sprintf("yaml decode into %v", t))
			}
			if signed {
				var x int64
				if err := n.Decode(&x); err != nil {
					return typeErr()
				}
				if w < 64 && (x >= 1<<uint(w-1) || x < -(1<<uint(w-1))) {
					return typeErr()
				}
				e.set(dst, x)
			} else {
				var x uint64
				if err := n.Decode(&x); err != nil {
					return typeErr()
				}
				if w < 64 && x >= 1<<uint(w) {
					return typeErr()
				}
				e.set(dst, x)
			}
		}
		return iface{}
	case *types.Interface:
		e.abort(abortEngine, "yaml decode into interface value not modelled")
	}
	e.abort(abortEngine, fmt.Sprintf("yaml decode into %v not modelled", t))
	return nil
}

func (e *Engine) bytesOf(v Value, what string) []byte {
	s := v.(sliceV)
	b := make([]byte, len(s.a))
	for i, x := range s.a {
		u, ok := x.(uint64)
		if !ok {
			e.abort(abortEngine, what+": symbolic bytes")
		}
		b[i] = byte(u)
	}
	return b
}

func (e *Engine) finishDecode(er Value, errs []string) Value {
	if er.(iface).t != nil {
		return er
	}
	if len(errs) > 0 {
		return e.newErr("yaml: unmarshal errors:\n  " + strings.Join(errs, "\n  "))
	}
	return iface{}
}

func registerYAML(e *Engine) {
	r := e.intr
	r[yamlPkg+".Unmarshal"] = func(e *Engine, fr *frame, args []Value, site ssa.CallInstruction) Value {
		out := args[1].(iface)
		if out.t == nil {
			return e.newErr("yaml: Unmarshal(nil)")
		}
		dst, ok := out.v.(*Value)
		if !ok || dst == nil {
			return e.newErr("yaml: Unmarshal(non-pointer)")
		}
		in := args[0].(sliceV)
		if len(in.a) > 0 {
			if d, ok := e.yside().docs[&in.a[0]]; ok {
				return e.ydecodeDoc(d, deref(out.t), dst)
			}
		}
		b := e.bytesOf(args[0], "yaml.Unmarshal")
		var doc yaml.Node
		if err := yaml.Unmarshal(b, &doc); err != nil {
			return e.newErr(err.Error())
		}
		if doc.Kind == 0 {
			return iface{} // empty document: destination untouched
		}
		var errs []string
		er := e.ydecode(&doc, deref(out.t), dst, &errs)
		return e.finishDecode(er, errs)
	}
	r["(*"+yamlPkg+".Node).Decode"] = func(e *Engine, fr *frame, args []Value, site ssa.CallInstruction) Value {
		np := args[0].(*Value)
		out := args[1].(iface)
		dst := out.v.(*Value)
		t := deref(out.t)
		if yn, ok := e.yside().trees[np]; ok {
			// a subtree with symbolic leaves handed to an UnmarshalYAML method: decode it from
			// the tree (typically into an alias of the method's own type)
			var errs []string
			er := e.ydecodeTree(yn, t, dst, &errs)
			return e.finishDecode(er, errs)
		}
		n, symv := e.nativeNode(np)
		if n == nil {
			// scalar node with a symbolic value
			if m := e.hasUnmarshalYAML(t); m != nil {
				r := e.call(m, []Value{dst, np}, nil)
				if ri, ok := r.(iface); ok && ri.t != nil {
					return ri
				}
				return iface{}
			}
			if isStringT(t) {
				e.set(dst, symv)
				return iface{}
			}
			e.abort(abortEngine, fmt.Sprintf("Node.Decode of a symbolic scalar into %v", t))
		}
		var errs []string
		er := e.ydecode(n, t, dst, &errs)
		return e.finishDecode(er, errs)
	}
	registerYAMLMarshal(e)
}
