package sym

import (
	"fmt"
	"go/types"
	"strings"
	"unicode/utf8"

	"crdverif/smt"

	"golang.org/x/tools/go/ssa"
)

func (m *mapObj) rebuild() {
	m.index = make(map[string]int, len(m.entries))
	for i, en := range m.entries {
		var sb strings.Builder
		if keyString(en.k, &sb) {
			m.index[sb.String()] = i
		}
	}
	m.idxFor = len(m.entries)
}

func hasSymParts(v Value) bool {
	switch x := v.(type) {
	case *smt.Term, *SymStr:
		return true
	case structV:
		for _, f := range x {
			if hasSymParts(f) {
				return true
			}
		}
	case arrayV:
		for _, f := range x {
			if hasSymParts(f) {
				return true
			}
		}
	case iface:
		return hasSymParts(x.v)
	}
	return false
}

func (m *mapObj) allKeysConcrete() bool {
	if m.idxFor != len(m.entries) {
		m.rebuild()
	}
	return len(m.index) == len(m.entries)
}

// find returns the entry index for a concrete key in a map with concrete keys.
func (m *mapObj) find(k Value) int {
	var sb strings.Builder
	keyString(k, &sb)
	if i, ok := m.index[sb.String()]; ok {
		return i
	}
	return -1
}

// mapLookup returns (value, ok).
func (e *Engine) mapLookup(m *mapObj, keyT, valT types.Type, k Value) (Value, Value) {
	if m == nil || len(m.entries) == 0 {
		return e.zero(valT), false
	}
	if !hasSymParts(k) && m.allKeysConcrete() {
		if i := m.find(k); i >= 0 {
			return copyVal(m.entries[i].v), true
		}
		return e.zero(valT), false
	}
	// symbolic: equality condition per entry
	conds := make([]*smt.Term, len(m.entries))
	anyPossible := false
	for i, en := range m.entries {
		conds[i] = e.equal(keyT, k, en.k)
		if conds[i].IsTrue() {
			return copyVal(en.v), true
		}
		if !conds[i].IsFalse() {
			anyPossible = true
		}
	}
	if !anyPossible {
		return e.zero(valT), false
	}
	if mergeable(valT) {
		res := e.zero(valT)
		for i := len(m.entries) - 1; i >= 0; i-- {
			if conds[i].IsFalse() {
				continue
			}
			res = e.ite(conds[i], valT, m.entries[i].v, res)
		}
		return res, e.lowerBool(e.ctx.Or(conds...))
	}
	// fork: which entry (or none)
	alts := append(append([]*smt.Term{}, conds...), e.ctx.Not(e.ctx.Or(conds...)))
	i := e.choose(alts, true)
	if i == len(m.entries) {
		return e.zero(valT), false
	}
	return copyVal(m.entries[i].v), true
}

func (e *Engine) lookup(fr *frame, in *ssa.Lookup) Value {
	x := fr.get(e, in.X)
	k := fr.get(e, in.Index)
	mt, ok := under(in.X.Type()).(*types.Map)
	if !ok {
		// string indexing via Lookup
		return e.strIndex(x, k, in.Index.Type())
	}
	v, found := e.mapLookup(x.(*mapObj), mt.Key(), mt.Elem(), k)
	if in.CommaOk {
		return tuple{v, found}
	}
	return v
}

func (e *Engine) mapSetEntries(m *mapObj, entries []mapEntry) {
	e.mapUndo = append(e.mapUndo, mapUndo{m, m.entries})
	m.entries = entries
	m.idxFor = -1
}

func (e *Engine) mapUpdate(m *mapObj, k, v Value) {
	if m == nil {
		e.goPanic("assignment to entry in nil map")
	}
	v = copyVal(v)
	k = copyVal(k)
	pos := -1
	if !hasSymParts(k) && m.allKeysConcrete() {
		pos = m.find(k)
	} else {
		conds := make([]*smt.Term, len(m.entries))
		for i, en := range m.entries {
			conds[i] = e.equal(m.keyT, k, en.k)
		}
		alts := append(append([]*smt.Term{}, conds...), e.ctx.Not(e.ctx.Or(conds...)))
		pos = e.choose(alts, true)
		if pos == len(m.entries) {
			pos = -1
		}
	}
	n := make([]mapEntry, len(m.entries), len(m.entries)+1)
	copy(n, m.entries)
	if pos >= 0 {
		n[pos].v = v
	} else {
		n = append(n, mapEntry{k, v})
	}
	e.mapSetEntries(m, n)
}

func (e *Engine) mapDelete(m *mapObj, k Value) {
	if m == nil {
		return
	}
	pos := -1
	if !hasSymParts(k) && m.allKeysConcrete() {
		pos = m.find(k)
	} else {
		conds := make([]*smt.Term, len(m.entries))
		for i, en := range m.entries {
			conds[i] = e.equal(m.keyT, k, en.k)
		}
		alts := append(append([]*smt.Term{}, conds...), e.ctx.Not(e.ctx.Or(conds...)))
		pos = e.choose(alts, true)
		if pos == len(m.entries) {
			pos = -1
		}
	}
	if pos < 0 {
		return
	}
	n := make([]mapEntry, 0, len(m.entries)-1)
	n = append(n, m.entries[:pos]...)
	n = append(n, m.entries[pos+1:]...)
	e.mapSetEntries(m, n)
}

// ---- range ----

func (e *Engine) rangeIter(x Value, t types.Type) Value {
	switch v := x.(type) {
	case *mapObj:
		it := &mapIter{}
		if v != nil {
			it.entries = v.entries
		}
		n := len(it.entries)
		it.order = make([]int, n)
		for i := range it.order {
			it.order[i] = i
		}
		// nondeterministic iteration order: at most one map range per path deviates from
		// insertion order (every range is a candidate)
		if e.mapOrder && n >= 2 && e.hostState["permuted"] == nil {
			if e.chooseFree(2) == 1 {
				e.hostState["permuted"] = true
				e.permute(it.order)
			}
		}
		return it
	case string, *SymStr:
		return &strIter{s: v}
	}
	panic(fmt.Sprintf("range over %T", x))
}

// permute deviates from insertion order: all non-identity permutations for n<=4, all single
// transpositions for n<=12, and for larger maps (unless the parameter "mapOrder.full" is set,
// as the thorough tier does) the reversal, the rotation by one and all adjacent transpositions
// — every pair of entries is inverted by the reversal, every "first" / "last" entry changes.
func (e *Engine) permute(order []int) {
	n := len(order)
	if n <= 4 {
		perms := permutations(n)
		k := 1 + e.chooseFree(len(perms)-1) // skip identity (index 0)
		p := perms[k]
		cp := append([]int{}, order...)
		for i := range order {
			order[i] = cp[p[i]]
		}
		return
	}
	if n > 12 && e.cfg.Params["mapOrder.full"] == 0 {
		k := e.chooseFree(n + 1)
		switch {
		case k == 0: // reversal
			for i, j := 0, n-1; i < j; i, j = i+1, j-1 {
				order[i], order[j] = order[j], order[i]
			}
		case k == 1: // rotation by one
			first := order[0]
			copy(order, order[1:])
			order[n-1] = first
		default: // adjacent transposition k-2, k-1
			order[k-2], order[k-1] = order[k-1], order[k-2]
		}
		return
	}
	k := e.chooseFree(n * (n - 1) / 2)
	for i := 0; i < n; i++ {
		for j := i + 1; j < n; j++ {
			if k == 0 {
				order[i], order[j] = order[j], order[i]
				return
			}
			k--
		}
	}
}

func permutations(n int) [][]int {
	var out [][]int
	var rec func(cur []int, used []bool)
	rec = func(cur []int, used []bool) {
		if len(cur) == n {
			out = append(out, append([]int{}, cur...))
			return
		}
		for i := 0; i < n; i++ {
			if !used[i] {
				used[i] = true
				rec(append(cur, i), used)
				used[i] = false
			}
		}
	}
	rec(nil, make([]bool, n))
	return out
}

// chooseFree forks n ways without any constraint (environment nondeterminism).
func (e *Engine) chooseFree(n int) int {
	if n <= 1 {
		return 0
	}
	if e.pos < len(e.decisions) {
		d := e.decisions[e.pos]
		e.pos++
		return d
	}
	prefix := e.decisions[:e.pos]
	for f := 1; f < n; f++ {
		w := make([]int, len(prefix)+1)
		copy(w, prefix)
		w[len(prefix)] = f
		e.newWork = append(e.newWork, w)
		e.Stats.Forks++
	}
	e.decisions = append(e.decisions[:e.pos], 0)
	e.pos++
	return 0
}

func (e *Engine) iterNext(it Value, in *ssa.Next) Value {
	switch x := it.(type) {
	case *mapIter:
		if x.pos >= len(x.order) {
			return tuple{false, nil, nil}
		}
		en := x.entries[x.order[x.pos]]
		x.pos++
		return tuple{true, copyVal(en.k), copyVal(en.v)}
	case *strIter:
		n := strLen(x.s)
		if x.pos >= n {
			return tuple{false, int64(0), int64(0)}
		}
		start := x.pos
		if cs, ok := x.s.(string); ok {
			r, size := utf8.DecodeRuneInString(cs[start:])
			x.pos += size
			return tuple{true, int64(start), int64(r)}
		}
		r, size := e.decodeRuneAt(x.s, start)
		x.pos += size
		return tuple{true, int64(start), r}
	}
	panic(fmt.Sprintf("next on %T", it))
}

// ---- channels (single goroutine semantics + cooperative goroutines) ----

func (e *Engine) chanSend(c *chanObj, v Value) {
	if c == nil {
		e.abort(abortEngine, "send on nil channel (blocks forever)")
	}
	for {
		if c.closed {
			e.goPanic("send on closed channel")
		}
		if len(c.buf) < c.cap || (c.cap == 0 && len(c.buf) == 0) {
			break
		}
		if !e.yield() {
			e.abort(abortEngine, "deadlock: send on full channel with no runnable goroutine")
		}
	}
	e.chanUndo = append(e.chanUndo, chanUndo{c, c.buf, c.closed})
	c.buf = append(append([]Value{}, c.buf...), copyVal(v))
	e.schedPoint()
}

func (e *Engine) chanRecv(c *chanObj, elemT types.Type) (Value, Value) {
	if c == nil {
		e.abort(abortEngine, "receive on nil channel (blocks forever)")
	}
	for len(c.buf) == 0 {
		if c.closed {
			return e.zero(elemT), false
		}
		if !e.yield() {
			e.abort(abortEngine, "deadlock: receive on empty channel with no runnable goroutine")
		}
	}
	e.chanUndo = append(e.chanUndo, chanUndo{c, c.buf, c.closed})
	v := c.buf[0]
	c.buf = append([]Value{}, c.buf[1:]...)
	e.schedPoint()
	return v, true
}

func (e *Engine) chanClose(c *chanObj) {
	if c == nil {
		e.goPanic("close of nil channel")
	}
	if c.closed {
		e.goPanic("close of closed channel")
	}
	e.chanUndo = append(e.chanUndo, chanUndo{c, c.buf, c.closed})
	c.closed = true
	e.schedPoint()
}

// selectOp implements select: among the ready cases one is taken (every ready case is
// explored when nondeterministic scheduling is on, the first otherwise); with no ready case a
// non-blocking select takes default, a blocking one yields until a case is ready.
func (e *Engine) selectOp(fr *frame, in *ssa.Select) Value {
	type st struct {
		c    *chanObj
		send Value
		recv bool
	}
	states := make([]st, len(in.States))
	for i, s := range in.States {
		c, _ := fr.get(e, s.Chan).(*chanObj)
		states[i] = st{c: c, recv: s.Dir == types.RecvOnly}
		if s.Send != nil {
			states[i].send = fr.get(e, s.Send)
		}
	}
	ready := func() []int {
		var r []int
		for i, s := range states {
			if s.c == nil {
				continue
			}
			if s.recv {
				if len(s.c.buf) > 0 || s.c.closed {
					r = append(r, i)
				}
			} else if s.c.closed || len(s.c.buf) < s.c.cap {
				r = append(r, i)
			}
		}
		return r
	}
	chosen := -1
	for {
		r := ready()
		if len(r) > 0 {
			k := 0
			if sc, _ := e.hostState["sched"].(*schedState); sc != nil && sc.nondet && len(r) > 1 {
				k = e.chooseFree(len(r))
			}
			chosen = r[k]
			break
		}
		if !in.Blocking {
			break
		}
		if !e.yield() {
			e.abort(abortEngine, "deadlock: blocking select with no ready case and no runnable goroutine")
		}
	}
	res := tuple{int64(chosen), false}
	for i, s := range in.States {
		if s.Dir != types.RecvOnly {
			continue
		}
		et := under(s.Chan.Type()).(*types.Chan).Elem()
		if i == chosen {
			v, ok := e.chanRecv(states[i].c, et)
			res[1] = ok
			res = append(res, v)
		} else {
			res = append(res, e.zero(et))
		}
	}
	if chosen >= 0 && !states[chosen].recv {
		e.chanSend(states[chosen].c, states[chosen].send)
	}
	return res
}
