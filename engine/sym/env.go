package sym

import (
	"fmt"
	"go/types"
	"strconv"
	"strings"

	"golang.org/x/tools/go/ssa"
)

// Environment model: cobra/pflag deliver typed flag values (definitions are recorded from
// crd's own init code), os/io are an in-memory file system. Every stub is listed in the
// evidence through the intrinsic names.

const (
	cobraPkg = "github.com/spf13/cobra"
	pflagPkg = "github.com/spf13/pflag"
)

type flagDef struct {
	name, short, kind string
	def               Value
}

type flagSetObj struct {
	cmd        *Value // owning command cell (nil for detached sets)
	persistent bool
}

type envState struct {
	// per command cell: flags defined locally / persistently
	local      map[*Value][]*flagDef
	persistent map[*Value][]*flagDef
	parent     map[*Value]*Value
	values     map[*Value]map[string]Value // set by ParseFlags/Set, per command
	files      map[string]*fileObj
}

type fileObj struct {
	name    string
	content []Value // byte values
	rpos    int
	wpos    int  // next write offset when positional
	posw    bool // opened without O_TRUNC/O_APPEND over existing content: writes overwrite in place
	closed  bool
	charDev bool // a character device (/dev/null, a terminal)
	std     string
}

// put writes src at the file's write position: at the end, or — for a file opened over existing
// content without truncation — in place from offset 0 on, leaving any longer old tail behind.
func (f *fileObj) put(src []Value) {
	if !f.posw {
		n := make([]Value, 0, len(f.content)+len(src))
		n = append(n, f.content...)
		f.content = append(n, src...)
		return
	}
	n := append([]Value{}, f.content...)
	for i, b := range src {
		if f.wpos+i < len(n) {
			n[f.wpos+i] = b
		} else {
			n = append(n, b)
		}
	}
	f.wpos += len(src)
	f.content = n
}

func (e *Engine) env() *envState {
	s, _ := e.hostState["env"].(*envState)
	if s == nil {
		s = &envState{local: map[*Value][]*flagDef{}, persistent: map[*Value][]*flagDef{}, parent: map[*Value]*Value{},
			values: map[*Value]map[string]Value{}, files: map[string]*fileObj{}}
		e.hostState["env"] = s
	}
	return s
}

// envForPath gives each path its own copy of the mutable parts (values, files); the flag
// definitions recorded at init are shared.
func (e *Engine) envForPath() {
	base, _ := e.initHost["env"].(*envState)
	if base == nil {
		return
	}
	n := &envState{local: base.local, persistent: base.persistent, parent: base.parent,
		values: map[*Value]map[string]Value{}, files: map[string]*fileObj{}}
	e.hostState["env"] = n
}

func (e *Engine) findFlag(cmd *Value, name string) *flagDef {
	s := e.env()
	for _, d := range s.local[cmd] {
		if d.name == name || (d.short != "" && d.short == name) {
			return d
		}
	}
	for c := cmd; c != nil; c = s.parent[c] {
		for _, d := range s.persistent[c] {
			if d.name == name || (d.short != "" && d.short == name) {
				return d
			}
		}
	}
	return nil
}

func (e *Engine) flagValue(cmd *Value, name string) (Value, *flagDef) {
	d := e.findFlag(cmd, name)
	if d == nil {
		return nil, nil
	}
	s := e.env()
	for c := cmd; c != nil; c = s.parent[c] {
		if v, ok := s.values[c][d.name]; ok {
			return v, d
		}
	}
	return d.def, d
}

func (e *Engine) setFlag(cmd *Value, name string, raw Value) Value {
	d := e.findFlag(cmd, name)
	if d == nil {
		return e.newErr("unknown flag: --" + name)
	}
	var v Value
	switch d.kind {
	case "string":
		v = raw
	case "stringSlice":
		rs, ok := raw.(string)
		if !ok {
			e.abort(abortEngine, "symbolic value for a string-slice flag")
		}
		prev, _ := e.env().values[cmd][d.name].(sliceV)
		parts := strings.Split(rs, ",")
		a := append([]Value{}, prev.a...)
		for _, p := range parts {
			a = append(a, p)
		}
		v = sliceV{a: a}
	case "bool":
		rs, _ := raw.(string)
		b, err := strconv.ParseBool(rs)
		if err != nil {
			return e.newErr("invalid argument for --" + name)
		}
		v = b
	case "uint", "uint8", "int":
		rs, ok := raw.(string)
		if !ok {
			// symbolic text: pflag's uintValue.Set is strconv.ParseUint(s, 0, 64)
			if _, sym := raw.(*SymStr); !sym || d.kind != "uint" {
				e.abort(abortEngine, "symbolic text for a numeric flag other than uint")
			}
			res := e.callModel("ParseUintBase", raw, int64(0)).(tuple)
			if !e.branch(res[1]) {
				return e.newErr("invalid argument for --" + name)
			}
			v = res[0]
			break
		}
		switch d.kind {
		case "uint":
			u, err := strconv.ParseUint(rs, 0, 64)
			if err != nil {
				return e.newErr("invalid argument for --" + name)
			}
			v = u
		case "uint8":
			u, err := strconv.ParseUint(rs, 0, 8)
			if err != nil {
				return e.newErr("invalid argument for --" + name)
			}
			v = u
		default:
			i, err := strconv.ParseInt(rs, 0, 64)
			if err != nil {
				return e.newErr("invalid argument for --" + name)
			}
			v = i
		}
	}
	s := e.env()
	if s.values[cmd] == nil {
		s.values[cmd] = map[string]Value{}
	}
	s.values[cmd][d.name] = v
	return iface{}
}

func (e *Engine) fileType() types.Type {
	return types.NewPointer(e.prog.Pkgs["os"].Type("File").Type())
}

func (e *Engine) fileOf(v Value) *fileObj {
	h, ok := v.(*hostObj)
	if !ok || h == nil {
		e.nilDeref()
	}
	switch f := h.v.(type) {
	case *fileObj:
		return f
	case string:
		// os.Stdin / os.Stdout / os.Stderr as created by externalGlobal
		s := e.env()
		if fo, ok := s.files["<"+f+">"]; ok {
			return fo
		}
		fo := &fileObj{name: "<" + f + ">", std: f}
		s.files[fo.name] = fo
		return fo
	}
	e.abort(abortEngine, "not a file object")
	return nil
}

func registerEnv(e *Engine) {
	r := e.intr
	cmdOf := func(v Value) *Value {
		p, _ := v.(*Value)
		return p
	}
	r["(*"+cobraPkg+".Command).PersistentFlags"] = func(e *Engine, fr *frame, args []Value, site ssa.CallInstruction) Value {
		return &hostObj{tag: "flagset", v: &flagSetObj{cmd: cmdOf(args[0]), persistent: true}}
	}
	r["(*"+cobraPkg+".Command).Flags"] = func(e *Engine, fr *frame, args []Value, site ssa.CallInstruction) Value {
		return &hostObj{tag: "flagset", v: &flagSetObj{cmd: cmdOf(args[0])}}
	}
	r["(*"+cobraPkg+".Command).AddCommand"] = func(e *Engine, fr *frame, args []Value, site ssa.CallInstruction) Value {
		s := e.env()
		for _, c := range args[1].(sliceV).a {
			s.parent[cmdOf(c)] = cmdOf(args[0])
		}
		return nil
	}
	define := func(kind string, hasShort bool) intrinsic {
		return func(e *Engine, fr *frame, args []Value, site ssa.CallInstruction) Value {
			fs := args[0].(*hostObj).v.(*flagSetObj)
			d := &flagDef{name: mustStr(e, args[1], "flag name"), kind: kind}
			i := 2
			if hasShort {
				d.short = mustStr(e, args[2], "flag shorthand")
				i = 3
			}
			d.def = args[i]
			if kind == "stringSlice" {
				if sl, ok := d.def.(sliceV); !ok || sl.nil {
					d.def = sliceV{nil: true}
				}
			}
			s := e.env()
			if fs.persistent {
				s.persistent[fs.cmd] = append(s.persistent[fs.cmd], d)
			} else {
				s.local[fs.cmd] = append(s.local[fs.cmd], d)
			}
			cell := new(Value)
			*cell = d.def
			return cell
		}
	}
	for _, k := range []struct{ meth, kind string }{{"Bool", "bool"}, {"String", "string"}, {"StringSlice", "stringSlice"},
		{"Uint", "uint"}, {"Uint8", "uint8"}, {"Int", "int"}} {
		r["(*"+pflagPkg+".FlagSet)."+k.meth] = define(k.kind, false)
		r["(*"+pflagPkg+".FlagSet)."+k.meth+"P"] = define(k.kind, true)
	}
	getter := func(kind string) intrinsic {
		return func(e *Engine, fr *frame, args []Value, site ssa.CallInstruction) Value {
			fs := args[0].(*hostObj).v.(*flagSetObj)
			name := mustStr(e, args[1], "flag name")
			v, d := e.flagValue(fs.cmd, name)
			zt := site.Value().Type().(*types.Tuple).At(0).Type()
			if d == nil {
				return tuple{e.zero(zt), e.newErr("flag accessed but not defined: " + name)}
			}
			if d.kind != kind {
				return tuple{e.zero(zt), e.newErr("trying to get " + kind + " value of flag of type " + d.kind)}
			}
			return tuple{v, iface{}}
		}
	}
	for _, k := range []struct{ meth, kind string }{{"GetBool", "bool"}, {"GetString", "string"}, {"GetStringSlice", "stringSlice"},
		{"GetUint", "uint"}, {"GetUint8", "uint8"}, {"GetInt", "int"}} {
		r["(*"+pflagPkg+".FlagSet)."+k.meth] = getter(k.kind)
	}
	// Changed: the flag was given on the command line (ParseFlags) or Set explicitly
	r["(*"+pflagPkg+".FlagSet).Changed"] = func(e *Engine, fr *frame, args []Value, site ssa.CallInstruction) Value {
		fs := args[0].(*hostObj).v.(*flagSetObj)
		name := mustStr(e, args[1], "flag name")
		d := e.findFlag(fs.cmd, name)
		if d == nil {
			return false
		}
		s := e.env()
		for c := fs.cmd; c != nil; c = s.parent[c] {
			if _, ok := s.values[c][d.name]; ok {
				return true
			}
		}
		return false
	}
	r["(*"+pflagPkg+".FlagSet).Set"] = func(e *Engine, fr *frame, args []Value, site ssa.CallInstruction) Value {
		fs := args[0].(*hostObj).v.(*flagSetObj)
		return e.setFlag(fs.cmd, mustStr(e, args[1], "flag name"), args[2])
	}
	// ParseFlags(["--name", "value", "--name=value", "-x", "value"]) — the subset harnesses use
	r["(*"+cobraPkg+".Command).ParseFlags"] = func(e *Engine, fr *frame, args []Value, site ssa.CallInstruction) Value {
		cmd := cmdOf(args[0])
		as := args[1].(sliceV).a
		for i := 0; i < len(as); i++ {
			a, ok := as[i].(string)
			if !ok {
				e.abort(abortEngine, "symbolic flag name")
			}
			var name string
			var val Value
			switch {
			case strings.HasPrefix(a, "--"):
				name = a[2:]
				if k := strings.Index(name, "="); k >= 0 {
					val = name[k+1:]
					name = name[:k]
				}
			case strings.HasPrefix(a, "-") && len(a) == 2:
				name = a[1:]
			default:
				continue // positional
			}
			d := e.findFlag(cmd, name)
			if d == nil {
				return e.newErr("unknown flag: " + a)
			}
			if val == nil {
				if d.kind == "bool" {
					val = "true"
				} else {
					if i+1 >= len(as) {
						return e.newErr("flag needs an argument: " + a)
					}
					i++
					val = as[i]
				}
			}
			if er := e.setFlag(cmd, d.name, val); er.(iface).t != nil {
				return er
			}
		}
		return iface{}
	}
	r["(*"+cobraPkg+".Command).Execute"] = func(e *Engine, fr *frame, args []Value, site ssa.CallInstruction) Value {
		// arbitrary outcome of running a command: nil or some error (harness-controlled)
		if v, ok := e.hostState["executeFails"].(bool); ok && v {
			return e.newErr("command failed")
		}
		return iface{}
	}

	// ---- os / io ----
	r["os.Open"] = func(e *Engine, fr *frame, args []Value, site ssa.CallInstruction) Value {
		name := mustStr(e, args[0], "file name")
		if name == "/dev/null" {
			return tuple{&hostObj{tag: "os.File", v: &fileObj{name: name, charDev: true}}, iface{}}
		}
		f, ok := e.env().files[name]
		if !ok {
			return tuple{(*hostObj)(nil), e.newErr("open " + name + ": no such file or directory")}
		}
		rd := &fileObj{name: name, content: f.content}
		return tuple{&hostObj{tag: "os.File", v: rd}, iface{}}
	}
	r["os.Create"] = func(e *Engine, fr *frame, args []Value, site ssa.CallInstruction) Value {
		name := mustStr(e, args[0], "file name")
		if name == "" || strings.HasSuffix(name, "/") || strings.HasPrefix(name, "/nonexistent/") {
			return tuple{(*hostObj)(nil), e.newErr("open " + name + ": no such file or directory")}
		}
		f := &fileObj{name: name}
		e.env().files[name] = f
		return tuple{&hostObj{tag: "os.File", v: f}, iface{}}
	}
	r["os.OpenFile"] = func(e *Engine, fr *frame, args []Value, site ssa.CallInstruction) Value {
		name := mustStr(e, args[0], "file name")
		flag := asInt(args[1])
		const oWRONLY, oRDWR, oCREATE, oEXCL, oTRUNC, oAPPEND = 0x1, 0x2, 0x40, 0x80, 0x200, 0x400
		old, exists := e.env().files[name]
		noent := tuple{(*hostObj)(nil), e.newErr("open " + name + ": no such file or directory")}
		if name == "" || strings.HasSuffix(name, "/") || strings.HasPrefix(name, "/nonexistent/") {
			return noent
		}
		if !exists && flag&oCREATE == 0 {
			return noent
		}
		if exists && flag&oCREATE != 0 && flag&oEXCL != 0 {
			return tuple{(*hostObj)(nil), e.newErr("open " + name + ": file exists")}
		}
		if flag&(oWRONLY|oRDWR) == 0 {
			return tuple{&hostObj{tag: "os.File", v: &fileObj{name: name, content: old.content}}, iface{}}
		}
		f := &fileObj{name: name}
		if exists && flag&oTRUNC == 0 {
			f.content = append([]Value{}, old.content...)
			f.posw = flag&oAPPEND == 0
		}
		e.env().files[name] = f
		return tuple{&hostObj{tag: "os.File", v: f}, iface{}}
	}
	// Stat: a regular file of the current size, or a character device (/dev/null)
	r["(*os.File).Stat"] = func(e *Engine, fr *frame, args []Value, site ssa.CallInstruction) Value {
		f := e.fileOf(args[0])
		mk := e.prog.Pkgs[vfPkg].Func("newFileInfo")
		if mk == nil {
			e.abort(abortEngine, "os.File.Stat: vf.newFileInfo missing")
		}
		return tuple{e.call(mk, []Value{f.name, int64(len(f.content)), f.charDev}, site), iface{}}
	}
	r["os.WriteFile"] = func(e *Engine, fr *frame, args []Value, site ssa.CallInstruction) Value {
		name := mustStr(e, args[0], "file name")
		src := args[1].(sliceV).a
		cp := make([]Value, len(src))
		copy(cp, src)
		e.env().files[name] = &fileObj{name: name, content: cp}
		return iface{}
	}
	r["os.ReadFile"] = func(e *Engine, fr *frame, args []Value, site ssa.CallInstruction) Value {
		name := mustStr(e, args[0], "file name")
		f, ok := e.env().files[name]
		if !ok {
			return tuple{sliceV{nil: true}, e.newErr("open " + name + ": no such file or directory")}
		}
		cp := make([]Value, len(f.content))
		copy(cp, f.content)
		return tuple{sliceV{a: cp}, iface{}}
	}
	r["os.Remove"] = func(e *Engine, fr *frame, args []Value, site ssa.CallInstruction) Value {
		delete(e.env().files, mustStr(e, args[0], "file name"))
		return iface{}
	}
	r["os.TempDir"] = func(e *Engine, fr *frame, args []Value, site ssa.CallInstruction) Value { return "/tmp" }
	r["(*os.File).Write"] = func(e *Engine, fr *frame, args []Value, site ssa.CallInstruction) Value {
		f := e.fileOf(args[0])
		src := args[1].(sliceV).a
		if f.closed {
			return tuple{int64(0), e.newErr("write " + f.name + ": file already closed")}
		}
		f.put(src)
		if f.std == "stdout" {
			e.stdout = append(e.stdout, e.byteValsToStr(src))
		}
		return tuple{int64(len(src)), iface{}}
	}
	r["(*os.File).WriteString"] = func(e *Engine, fr *frame, args []Value, site ssa.CallInstruction) Value {
		f := e.fileOf(args[0])
		bs := e.strToByteVals(args[1])
		f.put(bs)
		return tuple{int64(len(bs)), iface{}}
	}
	r["(*os.File).Close"] = func(e *Engine, fr *frame, args []Value, site ssa.CallInstruction) Value {
		f := e.fileOf(args[0])
		if f.std == "" {
			f.closed = true
		}
		return iface{}
	}
	r["(*os.File).Read"] = func(e *Engine, fr *frame, args []Value, site ssa.CallInstruction) Value {
		f := e.fileOf(args[0])
		dst := args[1].(sliceV).a
		if f.rpos >= len(f.content) {
			return tuple{int64(0), e.ioEOF()}
		}
		// a short read announced by the harness (vf.StdinFrom): io.Reader may return fewer
		// bytes than asked for; the rest arrives with the following reads
		if p, ok := e.hostState["readPortion"].(int); ok && p > 0 {
			delete(e.hostState, "readPortion")
			if p < len(dst) {
				dst = dst[:p]
			}
		}
		n := copy(dst, f.content[f.rpos:])
		f.rpos += n
		return tuple{int64(n), iface{}}
	}
	r["io.ReadAll"] = func(e *Engine, fr *frame, args []Value, site ssa.CallInstruction) Value {
		rd := args[0].(iface)
		if rd.t == nil {
			e.nilDeref()
		}
		if h, ok := rd.v.(*hostObj); ok && h != nil {
			if _, isFile := h.v.(*fileObj); isFile || h.tag == "os.File" {
				f := e.fileOf(rd.v)
				rest := append([]Value{}, f.content[f.rpos:]...)
				f.rpos = len(f.content)
				return tuple{sliceV{a: rest}, iface{}}
			}
		}
		// generic reader (bytes.Buffer, bytes.Reader, strings.Reader models)
		if p, ok := rd.v.(*Value); ok && p != nil {
			if sv, ok := (*p).(structV); ok && len(sv) > 0 {
				if sl, ok := sv[0].(sliceV); ok {
					return tuple{sliceV{a: append([]Value{}, sl.a...)}, iface{}}
				}
			}
		}
		// any other reader: call its Read method until it reports an error, as io.ReadAll does
		m := e.findMethod(rd.t, "Read")
		if m == nil {
			e.abort(abortEngine, fmt.Sprintf("io.ReadAll on %v not modelled", rd.t))
		}
		var all []Value
		for round := 0; ; round++ {
			if round > 1<<16 {
				e.abort(abortEngine, "io.ReadAll: reader never ends")
			}
			buf := make([]Value, 512)
			for i := range buf {
				buf[i] = uint64(0)
			}
			res := e.call(m, []Value{rd.v, sliceV{a: buf}}, site).(tuple)
			n := asInt(res[0])
			all = append(all, buf[:n]...)
			if er, ok := res[1].(iface); ok && er.t != nil {
				if eof, ok := e.ioEOF().(iface); ok && er.t == eof.t && er.v == eof.v {
					return tuple{sliceV{a: all}, iface{}}
				}
				return tuple{sliceV{a: all}, er}
			}
		}
	}
	r["os.Exit"] = func(e *Engine, fr *frame, args []Value, site ssa.CallInstruction) Value {
		e.exitCode = asInt(args[0])
		e.exited = true
		e.abort(abortExit, fmt.Sprintf("os.Exit(%d)", e.exitCode))
		return nil
	}
	r["gitlab.com/gomidi/midi/v2.CloseDriver"] = func(e *Engine, fr *frame, args []Value, site ssa.CallInstruction) Value { return nil }
}

func (e *Engine) ioEOF() Value {
	if v, ok := e.hostState["io.EOF"].(Value); ok {
		return v
	}
	v := e.newErr("EOF")
	e.hostState["io.EOF"] = v
	return v
}
