// Package sym is a symbolic interpreter for go/ssa: values are either concrete Go values
// or SMT terms; branching on a symbolic condition asks the solver and forks (by
// re-execution with a recorded decision prefix).
package sym

import (
	"fmt"
	"go/types"
	"strings"

	"crdverif/smt"

	"golang.org/x/tools/go/ssa"
)

// Value is one of:
//
//	bool, int64 (any signed int type), uint64 (any unsigned int type), float64, string  — concrete
//	*smt.Term                                   — symbolic bool / int / float64
//	*SymStr                                     — string with symbolic bytes, concrete length
//	structV, arrayV                             — aggregates (value semantics via copyVal)
//	*Value                                      — pointer to a cell
//	*symPtr                                     — pointer to elems[idx].path with symbolic idx
//	sliceV, *mapObj, iface, *closure, *ssa.Function, *ssa.Builtin, tuple, *chanObj, *hostObj
//	*mapIter, *strIter
type Value interface{}

type structV []Value
type arrayV []Value
type tuple []Value

type sliceV struct {
	a   []Value // backing window: a[0:len], cap(a) is the capacity
	nil bool
}

type iface struct {
	t types.Type // dynamic type; nil for the nil interface
	v Value
}

type closure struct {
	fn  *ssa.Function
	env []Value
}

// boundMethod is a method value of an engine-level object (intrinsic receiver).
type hostFunc struct {
	name string
	fn   func(e *Engine, args []Value) Value
}

type hostObj struct {
	tag string
	v   interface{}
}

type SymStr struct {
	b []*smt.Term // each BV8
}

type symPtr struct {
	elems []Value
	idx   *smt.Term // BV64
	path  []int
	elemT types.Type
}

type mapEntry struct {
	k, v Value
}

type mapObj struct {
	keyT    types.Type
	valT    types.Type
	entries []mapEntry     // insertion order; replaced wholesale on update (copy-on-write)
	index   map[string]int // concrete key -> entry index (rebuilt lazily)
	idxFor  int            // len(entries) for which index is valid; -1 = invalid
}

type chanObj struct {
	buf    []Value
	cap    int
	closed bool
}

type mapIter struct {
	entries []mapEntry
	order   []int
	pos     int
}

type strIter struct {
	s   Value // string or *SymStr
	pos int
}

func isSym(v Value) bool {
	switch v.(type) {
	case *smt.Term, *SymStr:
		return true
	}
	return false
}

// ---- types helpers ----

func under(t types.Type) types.Type { return t.Underlying() }

func deref(t types.Type) types.Type {
	if p, ok := under(t).(*types.Pointer); ok {
		return p.Elem()
	}
	panic(fmt.Sprintf("deref of non-pointer type %v", t))
}

// intInfo reports width and signedness of an integer basic kind.
func intInfo(t types.Type) (w int, signed bool, ok bool) {
	b, isB := under(t).(*types.Basic)
	if !isB {
		return 0, false, false
	}
	switch b.Kind() {
	case types.Int, types.Int64, types.UntypedInt:
		return 64, true, true
	case types.Int8:
		return 8, true, true
	case types.Int16:
		return 16, true, true
	case types.Int32, types.UntypedRune:
		return 32, true, true
	case types.Uint, types.Uint64, types.Uintptr:
		return 64, false, true
	case types.Uint8:
		return 8, false, true
	case types.Uint16:
		return 16, false, true
	case types.Uint32:
		return 32, false, true
	}
	return 0, false, false
}

func isFloat(t types.Type) bool {
	b, ok := under(t).(*types.Basic)
	return ok && (b.Kind() == types.Float64 || b.Kind() == types.Float32 || b.Kind() == types.UntypedFloat)
}
func isBoolT(t types.Type) bool {
	b, ok := under(t).(*types.Basic)
	return ok && (b.Kind() == types.Bool || b.Kind() == types.UntypedBool)
}
func isStringT(t types.Type) bool {
	b, ok := under(t).(*types.Basic)
	return ok && (b.Kind() == types.String || b.Kind() == types.UntypedString)
}

func sortOf(t types.Type) (smt.Sort, bool) {
	if w, _, ok := intInfo(t); ok {
		return smt.BV(w), true
	}
	if isBoolT(t) {
		return smt.Bool, true
	}
	if isFloat(t) {
		return smt.FP64, true
	}
	return smt.Sort{}, false
}

// normInt wraps a concrete integer to the width/sign of t.
func normInt(t types.Type, v uint64) Value {
	w, signed, ok := intInfo(t)
	if !ok {
		panic(fmt.Sprintf("normInt: not an integer type: %v", t))
	}
	if signed {
		sh := uint(64 - w)
		return int64(v<<sh) >> sh
	}
	if w < 64 {
		v &= (uint64(1) << uint(w)) - 1
	}
	return v
}

func asU64(v Value) uint64 {
	switch x := v.(type) {
	case int64:
		return uint64(x)
	case uint64:
		return x
	case bool:
		if x {
			return 1
		}
		return 0
	}
	panic(fmt.Sprintf("asU64: %T", v))
}

func asInt(v Value) int {
	switch x := v.(type) {
	case int64:
		return int(x)
	case uint64:
		return int(x)
	}
	panic(fmt.Sprintf("asInt: not a concrete integer: %T", v))
}

// ---- zero values ----

func (e *Engine) zero(t types.Type) Value {
	switch u := under(t).(type) {
	case *types.Basic:
		switch {
		case u.Kind() == types.UnsafePointer:
			return (*Value)(nil)
		case isBoolT(u):
			return false
		case isStringT(u):
			return ""
		case isFloat(u):
			return float64(0)
		case u.Kind() == types.UntypedNil:
			return nil
		}
		if _, signed, ok := intInfo(u); ok {
			if signed {
				return int64(0)
			}
			return uint64(0)
		}
		panic(fmt.Sprintf("zero: unsupported basic type %v", t))
	case *types.Struct:
		s := make(structV, u.NumFields())
		for i := range s {
			s[i] = e.zero(u.Field(i).Type())
		}
		return s
	case *types.Array:
		a := make(arrayV, u.Len())
		for i := range a {
			a[i] = e.zero(u.Elem())
		}
		return a
	case *types.Pointer:
		return (*Value)(nil)
	case *types.Slice:
		return sliceV{nil: true}
	case *types.Map:
		return (*mapObj)(nil)
	case *types.Chan:
		return (*chanObj)(nil)
	case *types.Signature:
		return (*closure)(nil)
	case *types.Interface:
		return iface{}
	case *types.Tuple:
		tp := make(tuple, u.Len())
		for i := range tp {
			tp[i] = e.zero(u.At(i).Type())
		}
		return tp
	}
	panic(fmt.Sprintf("zero: unsupported type %v", t))
}

// copyVal copies aggregates (value semantics); everything else is shared.
func copyVal(v Value) Value {
	switch x := v.(type) {
	case structV:
		n := make(structV, len(x))
		for i, f := range x {
			n[i] = copyVal(f)
		}
		return n
	case arrayV:
		n := make(arrayV, len(x))
		for i, f := range x {
			n[i] = copyVal(f)
		}
		return n
	case tuple:
		n := make(tuple, len(x))
		for i, f := range x {
			n[i] = copyVal(f)
		}
		return n
	}
	return v
}

// ---- lifting to terms ----

func (e *Engine) lift(v Value, t types.Type) *smt.Term {
	switch x := v.(type) {
	case *smt.Term:
		return x
	case bool:
		return e.ctx.BoolConst(x)
	case int64:
		w, _, ok := intInfo(t)
		if !ok {
			panic(fmt.Sprintf("lift int64 at type %v", t))
		}
		return e.ctx.BVConst(w, uint64(x))
	case uint64:
		w, _, ok := intInfo(t)
		if !ok {
			panic(fmt.Sprintf("lift uint64 at type %v", t))
		}
		return e.ctx.BVConst(w, x)
	case float64:
		return e.ctx.FPConst(x)
	}
	panic(fmt.Sprintf("lift: cannot lift %T at type %v", v, t))
}

// lower turns a constant term back into a concrete value of type t.
func (e *Engine) lower(x *smt.Term, t types.Type) Value {
	if !x.IsConst() {
		return x
	}
	switch x.S.K {
	case smt.KBool:
		return x.Val == 1
	case smt.KFP:
		return x.F
	}
	return normInt(t, x.Val)
}

func (e *Engine) liftBool(v Value) *smt.Term {
	switch x := v.(type) {
	case bool:
		return e.ctx.BoolConst(x)
	case *smt.Term:
		return x
	}
	panic(fmt.Sprintf("liftBool: %T", v))
}

func (e *Engine) lowerBool(x *smt.Term) Value {
	if x.IsConst() {
		return x.Val == 1
	}
	return x
}

// ---- strings ----

func strLen(v Value) int {
	switch s := v.(type) {
	case string:
		return len(s)
	case *SymStr:
		return len(s.b)
	}
	panic(fmt.Sprintf("strLen: %T", v))
}

func (e *Engine) strBytes(v Value) []*smt.Term {
	switch s := v.(type) {
	case string:
		out := make([]*smt.Term, len(s))
		for i := 0; i < len(s); i++ {
			out[i] = e.ctx.BVConst(8, uint64(s[i]))
		}
		return out
	case *SymStr:
		return s.b
	}
	panic(fmt.Sprintf("strBytes: %T", v))
}

// mkStr builds a string value from byte terms, concretising when possible.
func (e *Engine) mkStr(b []*smt.Term) Value {
	allc := true
	for _, t := range b {
		if !t.IsConst() {
			allc = false
			break
		}
	}
	if allc {
		bs := make([]byte, len(b))
		for i, t := range b {
			bs[i] = byte(t.Val)
		}
		return string(bs)
	}
	cp := make([]*smt.Term, len(b))
	copy(cp, b)
	return &SymStr{b: cp}
}

func (e *Engine) strEq(a, b Value) *smt.Term {
	if x, ok := a.(string); ok {
		if y, ok := b.(string); ok {
			return e.ctx.BoolConst(x == y)
		}
	}
	if strLen(a) != strLen(b) {
		return e.ctx.False
	}
	ab, bb := e.strBytes(a), e.strBytes(b)
	cs := make([]*smt.Term, len(ab))
	for i := range ab {
		cs[i] = e.ctx.Eq(ab[i], bb[i])
	}
	return e.ctx.And(cs...)
}

// ---- equality ----

// equal returns a Bool term for x == y at static type t.
func (e *Engine) equal(t types.Type, x, y Value) *smt.Term {
	switch u := under(t).(type) {
	case *types.Basic:
		if isStringT(u) {
			return e.strEq(x, y)
		}
		if u.Kind() == types.UnsafePointer {
			return e.ctx.BoolConst(x == y)
		}
		if !isSym(x) && !isSym(y) {
			return e.ctx.BoolConst(x == y)
		}
		lx, ly := e.lift(x, t), e.lift(y, t)
		if isFloat(t) {
			return e.ctx.FEq(lx, ly)
		}
		return e.ctx.Eq(lx, ly)
	case *types.Struct:
		xs, ys := x.(structV), y.(structV)
		cs := make([]*smt.Term, 0, len(xs))
		for i := range xs {
			if u.Field(i).Name() == "_" {
				continue
			}
			cs = append(cs, e.equal(u.Field(i).Type(), xs[i], ys[i]))
		}
		return e.ctx.And(cs...)
	case *types.Array:
		xs, ys := x.(arrayV), y.(arrayV)
		cs := make([]*smt.Term, len(xs))
		for i := range xs {
			cs[i] = e.equal(u.Elem(), xs[i], ys[i])
		}
		return e.ctx.And(cs...)
	case *types.Pointer:
		return e.ctx.BoolConst(e.ptrEq(x, y))
	case *types.Interface:
		xi, yi := x.(iface), y.(iface)
		if xi.t == nil || yi.t == nil {
			return e.ctx.BoolConst(xi.t == nil && yi.t == nil)
		}
		if !types.Identical(xi.t, yi.t) {
			return e.ctx.False
		}
		return e.equal(xi.t, xi.v, yi.v)
	case *types.Map:
		return e.ctx.BoolConst(x.(*mapObj) == y.(*mapObj))
	case *types.Chan:
		return e.ctx.BoolConst(x.(*chanObj) == y.(*chanObj))
	case *types.Slice:
		// only comparison with nil is legal
		xs, ys := x.(sliceV), y.(sliceV)
		return e.ctx.BoolConst(xs.nil && ys.nil)
	case *types.Signature:
		return e.ctx.BoolConst(isNilFunc(x) && isNilFunc(y))
	}
	panic(fmt.Sprintf("equal: unsupported type %v", t))
}

func isNilFunc(v Value) bool {
	switch f := v.(type) {
	case *closure:
		return f == nil
	case *ssa.Function:
		return f == nil
	case *ssa.Builtin:
		return f == nil
	case *hostFunc:
		return f == nil
	case nil:
		return true
	}
	return false
}

func (e *Engine) ptrEq(x, y Value) bool {
	px, okx := x.(*Value)
	py, oky := y.(*Value)
	if okx && oky {
		return px == py
	}
	if hx, ok := x.(*hostObj); ok {
		hy, ok2 := y.(*hostObj)
		return ok2 && hx == hy
	}
	if _, ok := y.(*hostObj); ok {
		return false
	}
	e.abort(abortEngine, fmt.Sprintf("pointer comparison of %T and %T", x, y))
	return false
}

// keyString renders a concrete value as a map-index key; ok=false when v has symbolic parts.
func keyString(v Value, sb *strings.Builder) bool {
	switch x := v.(type) {
	case bool:
		if x {
			sb.WriteString("T")
		} else {
			sb.WriteString("F")
		}
	case int64:
		fmt.Fprintf(sb, "i%d", x)
	case uint64:
		fmt.Fprintf(sb, "u%d", x)
	case float64:
		fmt.Fprintf(sb, "f%v", x)
	case string:
		fmt.Fprintf(sb, "s%d:%s", len(x), x)
	case structV:
		sb.WriteString("{")
		for _, f := range x {
			if !keyString(f, sb) {
				return false
			}
			sb.WriteString(",")
		}
		sb.WriteString("}")
	case arrayV:
		sb.WriteString("[")
		for _, f := range x {
			if !keyString(f, sb) {
				return false
			}
			sb.WriteString(",")
		}
		sb.WriteString("]")
	case *Value:
		fmt.Fprintf(sb, "p%p", x)
	case iface:
		if x.t == nil {
			sb.WriteString("nil")
			return true
		}
		sb.WriteString("<" + x.t.String() + ">")
		return keyString(x.v, sb)
	case *hostObj:
		fmt.Fprintf(sb, "h%p", x)
	default:
		return false
	}
	return true
}

// mergeable reports whether values of type t can be combined with ite.
func mergeable(t types.Type) bool {
	switch u := under(t).(type) {
	case *types.Basic:
		_, ok := sortOf(u)
		return ok
	case *types.Struct:
		for i := 0; i < u.NumFields(); i++ {
			if !mergeable(u.Field(i).Type()) {
				return false
			}
		}
		return true
	case *types.Array:
		return mergeable(u.Elem())
	}
	return false
}

// ite merges two values of a mergeable type.
func (e *Engine) ite(c *smt.Term, t types.Type, a, b Value) Value {
	if c.IsTrue() {
		return a
	}
	if c.IsFalse() {
		return b
	}
	switch u := under(t).(type) {
	case *types.Basic:
		if !isSym(a) && !isSym(b) && a == b {
			return a
		}
		return e.lower(e.ctx.Ite(c, e.lift(a, t), e.lift(b, t)), t)
	case *types.Struct:
		as, bs := a.(structV), b.(structV)
		out := make(structV, len(as))
		for i := range as {
			out[i] = e.ite(c, u.Field(i).Type(), as[i], bs[i])
		}
		return out
	case *types.Array:
		as, bs := a.(arrayV), b.(arrayV)
		out := make(arrayV, len(as))
		for i := range as {
			out[i] = e.ite(c, u.Elem(), as[i], bs[i])
		}
		return out
	}
	panic(fmt.Sprintf("ite: type %v is not mergeable", t))
}

func describe(v Value) string {
	switch x := v.(type) {
	case nil:
		return "nil"
	case *smt.Term:
		s := x.String()
		if len(s) > 200 {
			s = s[:200] + "…"
		}
		return s
	case *SymStr:
		return fmt.Sprintf("symstr(len=%d)", len(x.b))
	case structV:
		parts := make([]string, len(x))
		for i, f := range x {
			parts[i] = describe(f)
		}
		return "{" + strings.Join(parts, " ") + "}"
	case arrayV:
		parts := make([]string, len(x))
		for i, f := range x {
			parts[i] = describe(f)
		}
		return "[" + strings.Join(parts, " ") + "]"
	case sliceV:
		if x.nil {
			return "[]nil"
		}
		parts := make([]string, len(x.a))
		for i, f := range x.a {
			parts[i] = describe(f)
		}
		return "[]{" + strings.Join(parts, " ") + "}"
	case iface:
		if x.t == nil {
			return "iface(nil)"
		}
		return "iface(" + x.t.String() + ":" + describe(x.v) + ")"
	case *Value:
		if x == nil {
			return "ptr(nil)"
		}
		return "&" + describe(*x)
	case string:
		return fmt.Sprintf("%q", x)
	}
	return fmt.Sprintf("%v", v)
}
