package sym

import (
	"net/http"
	"fmt"
	"go/types"
	"math"
	"regexp"
	"regexp/syntax"
	"strconv"
	"strings"
	"unicode"

	"crdverif/smt"

	"golang.org/x/tools/go/ssa"
)

const vfPkg = Module + "/zz_verif"

// errObj is an engine-level error value (errors.New, fmt.Errorf, errors.Join).
type errObj struct {
	msg   string
	wraps []Value // iface values of wrapped errors
}

func (er *errObj) String() string { return er.msg }

func (e *Engine) errType() types.Type {
	p := e.prog.Pkgs["errors"]
	return types.NewPointer(p.Type("errorString").Type())
}

func (e *Engine) newErr(msg string, wraps ...Value) Value {
	return iface{t: e.errType(), v: &hostObj{tag: "err", v: &errObj{msg: msg, wraps: wraps}}}
}

func errOf(v Value) *errObj {
	i, ok := v.(iface)
	if !ok || i.t == nil {
		return nil
	}
	h, ok := i.v.(*hostObj)
	if !ok || h == nil {
		return nil
	}
	er, _ := h.v.(*errObj)
	return er
}

func (e *Engine) errorsIs(err, target Value) bool {
	ei, ok := err.(iface)
	if !ok || ei.t == nil {
		ti, _ := target.(iface)
		return ti.t == nil
	}
	ti := target.(iface)
	if ti.t != nil && types.Identical(ei.t, ti.t) {
		if eq := e.equalIfaceIdentity(ei, ti); eq {
			return true
		}
	}
	if er := errOf(err); er != nil {
		for _, w := range er.wraps {
			if e.errorsIs(w, target) {
				return true
			}
		}
	}
	return false
}

func (e *Engine) equalIfaceIdentity(a, b iface) bool {
	ha, ok1 := a.v.(*hostObj)
	hb, ok2 := b.v.(*hostObj)
	if ok1 && ok2 {
		return ha == hb
	}
	pa, ok1 := a.v.(*Value)
	pb, ok2 := b.v.(*Value)
	if ok1 && ok2 {
		return pa == pb
	}
	return false
}

func (e *Engine) interpretable(fn *ssa.Function) bool {
	return true
}

// initAllowed reports whether a package's initializer is executed by the engine.
func initAllowed(path string) bool {
	if strings.HasPrefix(path, Module) || strings.HasPrefix(path, "github.com/berquerant/ybase") {
		return true
	}
	switch path {
	case "gitlab.com/gomidi/midi/v2", "gitlab.com/gomidi/midi/v2/smf", "gitlab.com/gomidi/midi/v2/gm",
		"gitlab.com/gomidi/midi/v2/internal/utils", "gitlab.com/gomidi/midi/v2/internal/runningstatus", "gitlab.com/gomidi/midi/v2/drivers":
		return true // plain table initialisers; interpreted so that gomidi's serialiser runs in the engine
	case "unicode/utf8":
		return true // the two decoding tables; the package is interpreted on concrete and symbolic bytes
	case "bytes":
		return true // asciiSpace table and three error values; bytes.TrimSpace and friends are interpreted
	}
	return false
}

func (e *Engine) externalGlobal(g *ssa.Global) Value {
	key := g.Pkg.Pkg.Path() + "." + g.Name()
	if b, ok := e.prog.Embeds[key]; ok {
		if _, isSlice := under(deref(g.Type())).(*types.Slice); isSlice {
			a := make([]Value, len(b))
			for i, c := range b {
				a[i] = uint64(c)
			}
			return sliceV{a: a}
		}
		return string(b)
	}
	if v := e.smfGlobal(key); v != nil {
		return v
	}
	switch key {
	case "os.Stdout":
		return &hostObj{tag: "os.File", v: "stdout"}
	case "os.Stderr":
		return &hostObj{tag: "os.File", v: "stderr"}
	case "os.Stdin":
		return &hostObj{tag: "os.File", v: "stdin"}
	case "io.EOF":
		return e.ioEOF()
	case "io.ErrUnexpectedEOF":
		return e.namedErr("io.ErrUnexpectedEOF", "unexpected EOF")
	case "io.ErrShortWrite":
		return e.namedErr("io.ErrShortWrite", "short write")
	}
	return nil
}

// namedErr: one error value per well-known library error variable and path.
func (e *Engine) namedErr(key, msg string) Value {
	if v, ok := e.hostState[key].(Value); ok {
		return v
	}
	v := e.newErr(msg)
	e.hostState[key] = v
	return v
}

func (e *Engine) hostMethod(recv iface, m *types.Func) (Value, bool) {
	return nil, false
}

func argStr(v Value) (string, bool) {
	s, ok := v.(string)
	return s, ok
}

func mustStr(e *Engine, v Value, what string) string {
	s, ok := v.(string)
	if !ok {
		e.abort(abortEngine, what+": symbolic string argument not supported")
	}
	return s
}

func (e *Engine) strSlice(v Value) []Value {
	return v.(sliceV).a
}

func mkStrSlice(ss []string) Value {
	a := make([]Value, len(ss))
	for i, s := range ss {
		a[i] = s
	}
	return sliceV{a: a}
}

// callModel runs a Go model function from the overlay package zz_verif/models.
func (e *Engine) callModel(name string, args ...Value) Value {
	p := e.prog.Pkgs[vfPkg+"/models"]
	if p == nil {
		e.abort(abortEngine, "models package not loaded (needed for "+name+")")
	}
	fn := p.Func(name)
	if fn == nil {
		e.abort(abortEngine, "model function missing: "+name)
	}
	return e.callSSA(fn, args, nil, nil)
}

func registerIntrinsics(e *Engine) {
	r := e.intr
	noop := func(e *Engine, fr *frame, args []Value, site ssa.CallInstruction) Value { return nil }

	// ---- harness API ----
	nondet := func(kind types.BasicKind) intrinsic {
		return func(e *Engine, fr *frame, args []Value, site ssa.CallInstruction) Value {
			return e.newInput(mustStr(e, args[0], "Nondet name"), types.Typ[kind])
		}
	}
	r[vfPkg+".NondetUint"] = nondet(types.Uint)
	r[vfPkg+".NondetInt"] = nondet(types.Int)
	r[vfPkg+".NondetUint8"] = nondet(types.Uint8)
	r[vfPkg+".NondetUint16"] = nondet(types.Uint16)
	r[vfPkg+".NondetUint32"] = nondet(types.Uint32)
	r[vfPkg+".NondetInt32"] = nondet(types.Int32)
	r[vfPkg+".NondetRune"] = nondet(types.Int32)
	r[vfPkg+".NondetBool"] = nondet(types.Bool)
	r[vfPkg+".NondetIntRange"] = func(e *Engine, fr *frame, args []Value, site ssa.CallInstruction) Value {
		lo, hi := asInt(args[1]), asInt(args[2])
		v := e.newInput(mustStr(e, args[0], "Nondet name"), types.Typ[types.Int]).(*smt.Term)
		if hi < lo {
			e.abort(abortInfeasible, "empty range")
		}
		alts := make([]*smt.Term, hi-lo+1)
		for i := range alts {
			alts[i] = e.ctx.Eq(v, e.ctx.BVConst(64, uint64(int64(lo+i))))
		}
		return int64(lo + e.choose(alts, false))
	}
	r[vfPkg+".NondetString"] = func(e *Engine, fr *frame, args []Value, site ssa.CallInstruction) Value {
		name := mustStr(e, args[0], "Nondet name")
		n := asInt(args[1])
		b := make([]*smt.Term, n)
		for i := range b {
			b[i] = e.newInput(name+"."+strconv.Itoa(i), types.Typ[types.Uint8]).(*smt.Term)
		}
		return e.mkStr(b)
	}
	r[vfPkg+".NondetRunes"] = func(e *Engine, fr *frame, args []Value, site ssa.CallInstruction) Value {
		name := mustStr(e, args[0], "Nondet name")
		n := asInt(args[1])
		a := make([]Value, n)
		for i := range a {
			a[i] = e.newInput(name+"."+strconv.Itoa(i), types.Typ[types.Int32])
		}
		return sliceV{a: a}
	}
	r[vfPkg+".Assume"] = func(e *Engine, fr *frame, args []Value, site ssa.CallInstruction) Value {
		c := e.simp(e.liftBool(args[0]))
		if c.IsTrue() {
			return nil
		}
		if c.IsFalse() {
			e.abort(abortInfeasible, "assume false")
		}
		if e.pos >= len(e.decisions) {
			// beyond the replayed prefix: make sure the path stays feasible
			if e.check(c) == smt.Unsat {
				e.abort(abortInfeasible, "assume unsatisfiable")
			}
		}
		e.addPC(c)
		return nil
	}
	r[vfPkg+".Assert"] = func(e *Engine, fr *frame, args []Value, site ssa.CallInstruction) Value {
		e.assertion(mustStr(e, args[0], "Assert label"), e.liftBool(args[1]))
		return nil
	}
	r[vfPkg+".Reach"] = func(e *Engine, fr *frame, args []Value, site ssa.CallInstruction) Value {
		e.marks[mustStr(e, args[0], "Reach mark")] = true
		return nil
	}
	r[vfPkg+".Observe"] = func(e *Engine, fr *frame, args []Value, site ssa.CallInstruction) Value {
		name := mustStr(e, args[0], "Observe name")
		iv := args[1].(iface)
		o := Observation{Name: e.freshName("obs:" + name)[4:]}
		if iv.t != nil {
			o.Type = under(iv.t).String()
			switch x := iv.v.(type) {
			case *smt.Term:
				o.Term = x
			case bool, int64, uint64, float64:
				o.Conc = fmt.Sprintf("%v", x)
			case string:
				o.Conc = x
			default:
				o.Conc = "?"
			}
		} else {
			o.Conc = "<nil>"
		}
		e.observes = append(e.observes, o)
		return nil
	}
	r[vfPkg+".Unwind"] = func(e *Engine, fr *frame, args []Value, site ssa.CallInstruction) Value {
		e.unwind = asInt(args[0])
		return nil
	}
	r[vfPkg+".MaxDepth"] = func(e *Engine, fr *frame, args []Value, site ssa.CallInstruction) Value {
		e.maxDepth = asInt(args[0]) + e.depth
		return nil
	}
	r[vfPkg+".MustTerminate"] = func(e *Engine, fr *frame, args []Value, site ssa.CallInstruction) Value {
		e.mustTerm = true
		return nil
	}
	r[vfPkg+".Class"] = func(e *Engine, fr *frame, args []Value, site ssa.CallInstruction) Value {
		e.classTag = mustStr(e, args[0], "Class tag")
		return nil
	}
	r[vfPkg+".NondetMapOrder"] = func(e *Engine, fr *frame, args []Value, site ssa.CallInstruction) Value {
		e.mapOrder = args[0].(bool)
		return nil
	}
	r[vfPkg+".NondetSchedule"] = func(e *Engine, fr *frame, args []Value, site ssa.CallInstruction) Value {
		e.hostState["nondetSched"] = args[0].(bool)
		if s, _ := e.hostState["sched"].(*schedState); s != nil {
			s.nondet = args[0].(bool)
		}
		return nil
	}
	// NondetSpawnOrder: scheduling choices only where a goroutine is started (cheap: long
	// pipelines full of channel operations stay one path, but "which of the started goroutines
	// runs first" is explored)
	r[vfPkg+".NondetSpawnOrder"] = func(e *Engine, fr *frame, args []Value, site ssa.CallInstruction) Value {
		e.hostState["spawnSched"] = args[0].(bool)
		if s, _ := e.hostState["sched"].(*schedState); s != nil {
			s.spawnOnly = args[0].(bool)
		}
		return nil
	}
	r[vfPkg+".stdinPortion"] = func(e *Engine, fr *frame, args []Value, site ssa.CallInstruction) Value {
		e.hostState["readPortion"] = asInt(args[0])
		return nil
	}
	// CPUs: what runtime.GOMAXPROCS(0) / runtime.NumCPU() report
	r[vfPkg+".CPUs"] = func(e *Engine, fr *frame, args []Value, site ssa.CallInstruction) Value {
		e.hostState["cpus"] = asInt(args[0])
		return nil
	}
	cpus := func(e *Engine) int64 {
		if n, ok := e.hostState["cpus"].(int); ok && n > 0 {
			return int64(n)
		}
		return 1
	}
	r["runtime.NumCPU"] = func(e *Engine, fr *frame, args []Value, site ssa.CallInstruction) Value { return cpus(e) }
	r["runtime.GOMAXPROCS"] = func(e *Engine, fr *frame, args []Value, site ssa.CallInstruction) Value { return cpus(e) }
	r[vfPkg+".PreemptionBound"] = func(e *Engine, fr *frame, args []Value, site ssa.CallInstruction) Value {
		e.hostState["preemptBudget"] = asInt(args[0])
		if s, _ := e.hostState["sched"].(*schedState); s != nil {
			s.budget = asInt(args[0])
		}
		return nil
	}
	r[vfPkg+".TempPath"] = func(e *Engine, fr *frame, args []Value, site ssa.CallInstruction) Value {
		return "/tmp/crdverif-" + mustStr(e, args[0], "TempPath name")
	}
	r["github.com/berquerant/ybase.NewReader"] = func(e *Engine, fr *frame, args []Value, site ssa.CallInstruction) Value {
		// the real reader sits on bufio; use the rune-slice model over the reader's whole content
		ra := e.intr["io.ReadAll"](e, fr, []Value{args[0]}, site).(tuple)
		b := e.bytesOf(ra[0], "ybase.NewReader input")
		rs := []rune(string(b))
		a := make([]Value, len(rs))
		for i, r := range rs {
			a[i] = int64(r)
		}
		p := e.prog.Pkgs[Module+"/input/ast"]
		fn := p.Func("ZzNewModelReader")
		if fn == nil {
			e.abort(abortEngine, "ZzNewModelReader missing from the ast overlay")
		}
		return e.callSSA(fn, []Value{sliceV{a: a}}, nil, nil)
	}
	r[vfPkg+".Native"] = func(e *Engine, fr *frame, args []Value, site ssa.CallInstruction) Value { return false }
	r[vfPkg+".ExecuteFails"] = func(e *Engine, fr *frame, args []Value, site ssa.CallInstruction) Value {
		e.hostState["executeFails"] = args[0].(bool)
		return nil
	}
	// ExitCodeOf runs f and returns the status passed to os.Exit, or -1 when f returns.
	r[vfPkg+".ExitCodeOf"] = func(e *Engine, fr *frame, args []Value, site ssa.CallInstruction) (res Value) {
		depth, stack := e.depth, len(e.stack)
		defer func() {
			if r := recover(); r != nil {
				pa, ok := r.(pathAbort)
				if !ok || pa.kind != abortExit {
					panic(r)
				}
				e.depth, e.stack = depth, e.stack[:stack]
				e.exited = false
				res = int64(e.exitCode)
			}
		}()
		e.call(args[0], nil, site)
		return int64(-1)
	}
	r[vfPkg+".ExpectPanic"] = func(e *Engine, fr *frame, args []Value, site ssa.CallInstruction) Value {
		e.hostState["expectPanic"] = true
		return nil
	}
	r[vfPkg+".Stop"] = func(e *Engine, fr *frame, args []Value, site ssa.CallInstruction) Value {
		e.abort(abortStop, "stop")
		return nil
	}
	r[vfPkg+".Ite"] = func(e *Engine, fr *frame, args []Value, site ssa.CallInstruction) Value {
		c := e.liftBool(args[0])
		if c.IsTrue() {
			return args[1]
		}
		if c.IsFalse() {
			return args[2]
		}
		t := site.Value().Type()
		if !mergeable(t) {
			if e.branch(c) {
				return args[1]
			}
			return args[2]
		}
		return e.ite(c, t, args[1], args[2])
	}
	r[vfPkg+".Run"] = noop
	r[vfPkg+".Summarise"] = func(e *Engine, fr *frame, args []Value, site ssa.CallInstruction) Value {
		if e.summarise == nil {
			e.summarise = map[string]bool{}
		}
		name := mustStr(e, args[0], "Summarise name")
		found := false
		for _, p := range e.prog.SSA.AllPackages() {
			_ = p
		}
		e.summarise[name] = true
		_ = found
		return nil
	}
	r[vfPkg+".Param"] = func(e *Engine, fr *frame, args []Value, site ssa.CallInstruction) Value {
		name := mustStr(e, args[0], "Param name")
		if v, ok := e.cfg.Params[name]; ok {
			e.usedParams[name] = v
			return int64(v)
		}
		e.usedParams[name] = asInt(args[1])
		return args[1]
	}

	// ---- logging: empty bodies ----
	for _, n := range []string{"log/slog.Debug", "log/slog.Info", "log/slog.Warn", "log/slog.Error",
		"log/slog.SetDefault", Module + "/logx.Setup"} {
		r[n] = noop
	}
	attr := func(e *Engine, fr *frame, args []Value, site ssa.CallInstruction) Value {
		return e.zero(site.Value().Type())
	}
	for _, n := range []string{"log/slog.String", "log/slog.Int", "log/slog.Any", "log/slog.Bool", "log/slog.Uint64", "log/slog.Int64",
		Module + "/logx.JSON", Module + "/logx.Err", Module + "/logx.Jsonify"} {
		r[n] = attr
	}

	// ---- errors / fmt ----
	r["errors.New"] = func(e *Engine, fr *frame, args []Value, site ssa.CallInstruction) Value {
		s, _ := args[0].(string)
		return e.newErr(s)
	}
	r["(*errors.errorString).Error"] = func(e *Engine, fr *frame, args []Value, site ssa.CallInstruction) Value {
		if h, ok := args[0].(*hostObj); ok && h != nil {
			return h.v.(*errObj).msg
		}
		return "error"
	}
	r["errors.Is"] = func(e *Engine, fr *frame, args []Value, site ssa.CallInstruction) Value {
		return e.errorsIs(args[0], args[1])
	}
	r["errors.Join"] = func(e *Engine, fr *frame, args []Value, site ssa.CallInstruction) Value {
		var ws []Value
		for _, a := range e.strSlice(args[0]) {
			if ai := a.(iface); ai.t != nil {
				ws = append(ws, a)
			}
		}
		if len(ws) == 0 {
			return iface{}
		}
		return e.newErr("joined", ws...)
	}
	r["fmt.Errorf"] = func(e *Engine, fr *frame, args []Value, site ssa.CallInstruction) Value {
		format, _ := args[0].(string)
		va := e.strSlice(args[1])
		var ws []Value
		ai := 0
		for i := 0; i < len(format); i++ {
			if format[i] != '%' {
				continue
			}
			i++
			for i < len(format) && strings.ContainsRune("+-# 0123456789.", rune(format[i])) {
				i++
			}
			if i >= len(format) {
				break
			}
			if format[i] == '%' {
				continue
			}
			if format[i] == 'w' && ai < len(va) {
				if x, ok := va[ai].(iface); ok && x.t != nil {
					ws = append(ws, x)
				}
			}
			ai++
		}
		return e.newErr(format, ws...)
	}
	r["fmt.Sprintf"] = func(e *Engine, fr *frame, args []Value, site ssa.CallInstruction) Value {
		if site != nil && site.Parent() != nil && site.Parent().String() == Module+"/errorx.wrap" {
			return "<error text>"
		}
		format := mustStr(e, args[0], "Sprintf format")
		return e.sprintf(format, e.strSlice(args[1]))
	}
	r["fmt.Sprint"] = func(e *Engine, fr *frame, args []Value, site ssa.CallInstruction) Value {
		va := e.strSlice(args[0])
		var out Value = ""
		for i, a := range va {
			if i > 0 {
				// Sprint adds spaces between operands when neither is a string
				_, s1 := va[i-1].(iface).v.(string)
				_, s2 := a.(iface).v.(string)
				if !s1 && !s2 {
					out = e.strCat(out, " ")
				}
			}
			out = e.strCat(out, e.formatVerb('v', false, a))
		}
		return out
	}
	r["fmt.Printf"] = func(e *Engine, fr *frame, args []Value, site ssa.CallInstruction) Value {
		format := mustStr(e, args[0], "Printf format")
		s := e.sprintf(format, e.strSlice(args[1]))
		e.writeStdout(s)
		return tuple{int64(strLen(s)), iface{}}
	}
	r["fmt.Println"] = func(e *Engine, fr *frame, args []Value, site ssa.CallInstruction) Value {
		var out Value = ""
		for i, x := range e.strSlice(args[0]) {
			if i > 0 {
				out = e.strCat(out, " ")
			}
			out = e.strCat(out, e.formatVerb('v', false, x))
		}
		out = e.strCat(out, "\n")
		e.writeStdout(out)
		return tuple{int64(strLen(out)), iface{}}
	}

	// ---- strings / strconv / unicode / math ----
	r["strings.Join"] = func(e *Engine, fr *frame, args []Value, site ssa.CallInstruction) Value {
		parts := e.strSlice(args[0])
		var out Value = ""
		for i, p := range parts {
			if i > 0 {
				out = e.strCat(out, args[1])
			}
			out = e.strCat(out, p)
		}
		return out
	}
	r["strings.Contains"] = func(e *Engine, fr *frame, args []Value, site ssa.CallInstruction) Value {
		if a, ok := argStr(args[0]); ok {
			if b, ok := argStr(args[1]); ok {
				return strings.Contains(a, b)
			}
		}
		return e.callModel("StringsContains", args...)
	}
	r["strings.HasPrefix"] = func(e *Engine, fr *frame, args []Value, site ssa.CallInstruction) Value {
		if a, ok := argStr(args[0]); ok {
			if b, ok := argStr(args[1]); ok {
				return strings.HasPrefix(a, b)
			}
		}
		return e.callModel("StringsHasPrefix", args...)
	}
	r["strings.Trim"] = func(e *Engine, fr *frame, args []Value, site ssa.CallInstruction) Value {
		if a, ok := argStr(args[0]); ok {
			if b, ok := argStr(args[1]); ok {
				return strings.Trim(a, b)
			}
		}
		return e.callModel("StringsTrim", args...)
	}
	r["strings.SplitN"] = func(e *Engine, fr *frame, args []Value, site ssa.CallInstruction) Value {
		if a, ok := argStr(args[0]); ok {
			if b, ok := argStr(args[1]); ok {
				return mkStrSlice(strings.SplitN(a, b, asInt(args[2])))
			}
		}
		return e.callModel("StringsSplitN", args...)
	}
	r["strings.ContainsRune"] = func(e *Engine, fr *frame, args []Value, site ssa.CallInstruction) Value {
		s := mustStr(e, args[0], "ContainsRune set")
		if !isSym(args[1]) {
			return strings.ContainsRune(s, rune(args[1].(int64)))
		}
		rt := args[1].(*smt.Term)
		var cs []*smt.Term
		for _, c := range s {
			cs = append(cs, e.ctx.Eq(rt, e.ctx.BVConst(32, uint64(uint32(c)))))
		}
		return e.lowerBool(e.ctx.Or(cs...))
	}
	r["strings.Compare"] = func(e *Engine, fr *frame, args []Value, site ssa.CallInstruction) Value {
		if a, ok := argStr(args[0]); ok {
			if b, ok := argStr(args[1]); ok {
				return int64(strings.Compare(a, b))
			}
		}
		lt := e.strLess(args[0], args[1], false, false)
		eq := e.strEq(args[0], args[1])
		it := types.Typ[types.Int]
		return e.ite(eq, it, int64(0), e.ite(lt, it, int64(-1), int64(1)))
	}
	// TrimRightFunc / TrimLeftFunc / TrimFunc with unicode.IsSpace on symbolic text: Go models
	trimFunc := func(model string) intrinsic {
		return func(e *Engine, fr *frame, args []Value, site ssa.CallInstruction) Value {
			if _, sym := args[0].(*SymStr); sym {
				if f, ok := args[1].(*ssa.Function); ok && f.String() == "unicode.IsSpace" {
					switch model {
					case "both":
						return e.callModel("StringsTrimSpace", args[0])
					default:
						return e.callModel(model, args[0])
					}
				}
			}
			return e.callRaw(site.Common().StaticCallee(), args, nil, site)
		}
	}
	r["strings.TrimRightFunc"] = trimFunc("StringsTrimRightSpace")
	r["strings.TrimLeftFunc"] = trimFunc("StringsTrimLeftSpace")
	r["strings.TrimFunc"] = trimFunc("both")
	r["strings.TrimSpace"] = func(e *Engine, fr *frame, args []Value, site ssa.CallInstruction) Value {
		if a, ok := argStr(args[0]); ok {
			return strings.TrimSpace(a)
		}
		return e.callModel("StringsTrimSpace", args[0])
	}
	r["strings.Replace"] = func(e *Engine, fr *frame, args []Value, site ssa.CallInstruction) Value {
		return strings.Replace(mustStr(e, args[0], "Replace"), mustStr(e, args[1], "Replace"), mustStr(e, args[2], "Replace"), asInt(args[3]))
	}
	// strings.Replacer: the pairs are kept; Replace runs natively on concrete text and through
	// the Go model on symbolic text
	r["strings.NewReplacer"] = func(e *Engine, fr *frame, args []Value, site ssa.CallInstruction) Value {
		var pairs []string
		for _, a := range args[0].(sliceV).a {
			pairs = append(pairs, mustStr(e, a, "NewReplacer"))
		}
		if len(pairs)%2 == 1 {
			e.goPanic("strings.NewReplacer: odd argument count")
		}
		cell := new(Value)
		*cell = &hostObj{tag: "strings.Replacer", v: pairs}
		return cell
	}
	r["(*strings.Replacer).Replace"] = func(e *Engine, fr *frame, args []Value, site ssa.CallInstruction) Value {
		p, _ := args[0].(*Value)
		if p == nil {
			e.nilDeref()
		}
		pairs := (*p).(*hostObj).v.([]string)
		if s, ok := argStr(args[1]); ok {
			return strings.NewReplacer(pairs...).Replace(s)
		}
		for i := 0; i < len(pairs); i += 2 {
			if pairs[i] == "" {
				e.abort(abortEngine, "strings.Replacer with an empty old string on symbolic text")
			}
		}
		return e.callModel("ReplacerReplace", args[1], mkStrSlice(pairs))
	}
	// net/http.DetectContentType on concrete bytes: the real function
	r["net/http.DetectContentType"] = func(e *Engine, fr *frame, args []Value, site ssa.CallInstruction) Value {
		return http.DetectContentType(e.bytesOf(args[0], "DetectContentType"))
	}
	r["strconv.Quote"] = func(e *Engine, fr *frame, args []Value, site ssa.CallInstruction) Value {
		return strconv.Quote(mustStr(e, args[0], "strconv.Quote"))
	}
	// concrete-only helpers (harness-side text handling)
	r["strings.Split"] = func(e *Engine, fr *frame, args []Value, site ssa.CallInstruction) Value {
		return mkStrSlice(strings.Split(mustStr(e, args[0], "Split"), mustStr(e, args[1], "Split")))
	}
	r["strings.Fields"] = func(e *Engine, fr *frame, args []Value, site ssa.CallInstruction) Value {
		return mkStrSlice(strings.Fields(mustStr(e, args[0], "Fields")))
	}
	for name, f := range map[string]func(a, b string) string{"strings.TrimLeft": strings.TrimLeft, "strings.TrimRight": strings.TrimRight,
		"strings.TrimPrefix": strings.TrimPrefix, "strings.TrimSuffix": strings.TrimSuffix} {
		f := f
		name := name
		r[name] = func(e *Engine, fr *frame, args []Value, site ssa.CallInstruction) Value {
			return f(mustStr(e, args[0], name), mustStr(e, args[1], name))
		}
	}
	r["strings.ToUpper"] = func(e *Engine, fr *frame, args []Value, site ssa.CallInstruction) Value {
		return strings.ToUpper(mustStr(e, args[0], "ToUpper"))
	}
	r["strings.EqualFold"] = func(e *Engine, fr *frame, args []Value, site ssa.CallInstruction) Value {
		return strings.EqualFold(mustStr(e, args[0], "EqualFold"), mustStr(e, args[1], "EqualFold"))
	}
	r["strings.ReplaceAll"] = func(e *Engine, fr *frame, args []Value, site ssa.CallInstruction) Value {
		return strings.ReplaceAll(mustStr(e, args[0], "ReplaceAll"), mustStr(e, args[1], "ReplaceAll"), mustStr(e, args[2], "ReplaceAll"))
	}
	r["strings.Index"] = func(e *Engine, fr *frame, args []Value, site ssa.CallInstruction) Value {
		return int64(strings.Index(mustStr(e, args[0], "Index"), mustStr(e, args[1], "Index")))
	}
	r["strings.HasSuffix"] = func(e *Engine, fr *frame, args []Value, site ssa.CallInstruction) Value {
		return strings.HasSuffix(mustStr(e, args[0], "HasSuffix"), mustStr(e, args[1], "HasSuffix"))
	}
	r["strings.Count"] = func(e *Engine, fr *frame, args []Value, site ssa.CallInstruction) Value {
		return int64(strings.Count(mustStr(e, args[0], "Count"), mustStr(e, args[1], "Count")))
	}
	r["strings.Repeat"] = func(e *Engine, fr *frame, args []Value, site ssa.CallInstruction) Value {
		return strings.Repeat(mustStr(e, args[0], "Repeat"), asInt(args[1]))
	}
	r["strings.ToLower"] = func(e *Engine, fr *frame, args []Value, site ssa.CallInstruction) Value {
		return strings.ToLower(mustStr(e, args[0], "ToLower"))
	}
	r["strconv.ParseUint"] = func(e *Engine, fr *frame, args []Value, site ssa.CallInstruction) Value {
		if s, ok := argStr(args[0]); ok {
			v, err := strconv.ParseUint(s, asInt(args[1]), asInt(args[2]))
			if err != nil {
				return tuple{uint64(v), e.newErr("strconv.ParseUint: " + err.Error())}
			}
			return tuple{v, iface{}}
		}
		if asInt(args[2]) != 64 {
			e.abort(abortEngine, "ParseUint model supports 64 bits only")
		}
		var res tuple
		if asInt(args[1]) == 10 {
			res = e.callModel("ParseUint10", args[0]).(tuple)
		} else {
			res = e.callModel("ParseUintBase", args[0], args[1]).(tuple)
		}
		if e.branch(res[1]) {
			return tuple{res[0], iface{}}
		}
		return tuple{uint64(0), e.newErr("strconv.ParseUint: invalid syntax or out of range")}
	}
	r["strconv.Atoi"] = func(e *Engine, fr *frame, args []Value, site ssa.CallInstruction) Value {
		if s, ok := argStr(args[0]); ok {
			v, err := strconv.Atoi(s)
			if err != nil {
				return tuple{int64(0), e.newErr("strconv.Atoi: " + err.Error())}
			}
			return tuple{int64(v), iface{}}
		}
		e.abort(abortEngine, "strconv.Atoi on symbolic string")
		return nil
	}
	r["strconv.Itoa"] = func(e *Engine, fr *frame, args []Value, site ssa.CallInstruction) Value {
		if !isSym(args[0]) {
			return strconv.Itoa(asInt(args[0]))
		}
		return e.callModel("FormatInt", args[0])
	}
	r["unicode.IsSpace"] = func(e *Engine, fr *frame, args []Value, site ssa.CallInstruction) Value {
		if !isSym(args[0]) {
			return unicode.IsSpace(rune(args[0].(int64)))
		}
		rt := args[0].(*smt.Term)
		return e.lowerBool(e.runeInTable(rt, unicode.White_Space))
	}
	r["unicode.IsDigit"] = func(e *Engine, fr *frame, args []Value, site ssa.CallInstruction) Value {
		if !isSym(args[0]) {
			return unicode.IsDigit(rune(args[0].(int64)))
		}
		return e.lowerBool(e.runeInTable(args[0].(*smt.Term), unicode.Digit))
	}
	for name, tf := range map[string]struct {
		f   func(rune) bool
		tab *unicode.RangeTable
	}{"unicode.IsLetter": {unicode.IsLetter, unicode.Letter}, "unicode.IsUpper": {unicode.IsUpper, unicode.Upper},
		"unicode.IsLower": {unicode.IsLower, unicode.Lower}, "unicode.IsNumber": {unicode.IsNumber, unicode.Number},
		"unicode.IsPunct": {unicode.IsPunct, unicode.Punct}} {
		tf := tf
		r[name] = func(e *Engine, fr *frame, args []Value, site ssa.CallInstruction) Value {
			if !isSym(args[0]) {
				return tf.f(rune(args[0].(int64)))
			}
			return e.lowerBool(e.runeInTable(args[0].(*smt.Term), tf.tab))
		}
	}
	r["math.Round"] = func(e *Engine, fr *frame, args []Value, site ssa.CallInstruction) Value {
		if f, ok := args[0].(float64); ok {
			return math.Round(f)
		}
		return e.ctx.FUn(smt.OFRoundRNA, args[0].(*smt.Term))
	}
	r["math.Floor"] = func(e *Engine, fr *frame, args []Value, site ssa.CallInstruction) Value {
		if f, ok := args[0].(float64); ok {
			return math.Floor(f)
		}
		return e.ctx.FUn(smt.OFFloor, args[0].(*smt.Term))
	}
	r["math.Ceil"] = func(e *Engine, fr *frame, args []Value, site ssa.CallInstruction) Value {
		if f, ok := args[0].(float64); ok {
			return math.Ceil(f)
		}
		return e.ctx.FUn(smt.OFCeil, args[0].(*smt.Term))
	}
	r["math.Trunc"] = func(e *Engine, fr *frame, args []Value, site ssa.CallInstruction) Value {
		if f, ok := args[0].(float64); ok {
			return math.Trunc(f)
		}
		return e.ctx.FUn(smt.OFTrunc, args[0].(*smt.Term))
	}

	// ---- regexp (concrete subjects; symbolic subjects are case-split by the harness) ----
	r["regexp.MustCompile"] = func(e *Engine, fr *frame, args []Value, site ssa.CallInstruction) Value {
		return &hostObj{tag: "regexp", v: regexp.MustCompile(mustStr(e, args[0], "regexp pattern"))}
	}
	r["(*regexp.Regexp).FindAllStringSubmatch"] = func(e *Engine, fr *frame, args []Value, site ssa.CallInstruction) Value {
		re := args[0].(*hostObj).v.(*regexp.Regexp)
		subj := args[1]
		s, ok := argStr(subj)
		if !ok {
			s = e.classSplitString(re, subj)
		}
		ms := re.FindAllStringSubmatchIndex(s, asInt(args[2]))
		if ms == nil {
			return sliceV{nil: true}
		}
		out := make([]Value, len(ms))
		for i, m := range ms {
			parts := make([]Value, len(m)/2)
			for k := range parts {
				lo, hi := m[2*k], m[2*k+1]
				if lo < 0 {
					parts[k] = ""
					continue
				}
				if ok {
					parts[k] = s[lo:hi]
				} else {
					parts[k] = e.mkStr(e.strBytes(subj)[lo:hi])
				}
			}
			out[i] = sliceV{a: parts}
		}
		return sliceV{a: out}
	}

	// ---- sync ----
	for _, n := range []string{"(*sync.Mutex).Lock", "(*sync.Mutex).Unlock", "(*sync.RWMutex).Lock", "(*sync.RWMutex).Unlock",
		"(*sync.RWMutex).RLock", "(*sync.RWMutex).RUnlock"} {
		r[n] = noop
	}
	// sync.WaitGroup: a counter per WaitGroup; Wait yields to the other goroutines until it is 0
	wgKey := func(v Value) string { return fmt.Sprintf("wg:%p", v.(*Value)) }
	r["(*sync.WaitGroup).Add"] = func(e *Engine, fr *frame, args []Value, site ssa.CallInstruction) Value {
		k := wgKey(args[0])
		n, _ := e.hostState[k].(int)
		n += asInt(args[1])
		if n < 0 {
			e.goPanic("sync: negative WaitGroup counter")
		}
		e.hostState[k] = n
		return nil
	}
	r["(*sync.WaitGroup).Done"] = func(e *Engine, fr *frame, args []Value, site ssa.CallInstruction) Value {
		k := wgKey(args[0])
		n, _ := e.hostState[k].(int)
		if n <= 0 {
			e.goPanic("sync: negative WaitGroup counter")
		}
		e.hostState[k] = n - 1
		return nil
	}
	r["(*sync.WaitGroup).Wait"] = func(e *Engine, fr *frame, args []Value, site ssa.CallInstruction) Value {
		k := wgKey(args[0])
		for {
			n, _ := e.hostState[k].(int)
			if n <= 0 {
				return nil
			}
			if !e.yield() {
				e.abort(abortEngine, "deadlock: WaitGroup.Wait with no runnable goroutine")
			}
		}
	}
	r["(*sync.Once).Do"] = func(e *Engine, fr *frame, args []Value, site ssa.CallInstruction) Value {
		p := args[0].(*Value)
		key := fmt.Sprintf("once:%p", p)
		if e.hostState[key] == nil {
			e.hostState[key] = true
			e.call(args[1], nil, site)
		}
		return nil
	}

	registerYAML(e)
	registerBufModels(e)
	registerEnv(e)
	registerMIDI(e)
}

// concretizeString forks a symbolic string into all byte assignments that the solver
// finds feasible, one byte at a time (used for regexp subjects of small length).
func (e *Engine) concretizeString(v Value) string {
	b := e.strBytes(v)
	out := make([]byte, len(b))
	for i, t := range b {
		if t.IsConst() {
			out[i] = byte(t.Val)
			continue
		}
		alts := make([]*smt.Term, 256)
		for c := 0; c < 256; c++ {
			alts[c] = e.ctx.Eq(t, e.ctx.BVConst(8, uint64(c)))
		}
		out[i] = byte(e.choose(alts, true))
	}
	return string(out)
}

// classSplitString case-splits every symbolic byte of v on the character classes the
// pattern itself distinguishes and returns a representative concrete string; the chosen
// classes are added to the path condition. Sound for ASCII-only patterns without '.',
// whose matching depends on each byte only through these classes.
func (e *Engine) classSplitString(re *regexp.Regexp, v Value) string {
	classes := regexpClasses(re.String())
	if classes == nil {
		e.abort(abortEngine, "regexp with non-ASCII or any-char on a symbolic subject: "+re.String())
	}
	b := e.strBytes(v)
	out := make([]byte, len(b))
	c := e.ctx
	for i, t := range b {
		if t.IsConst() {
			out[i] = byte(t.Val)
			continue
		}
		alts := make([]*smt.Term, len(classes))
		for k, cl := range classes {
			var ds []*smt.Term
			for _, iv := range cl.ivs {
				if iv[0] == iv[1] {
					ds = append(ds, c.Eq(t, c.BVConst(8, uint64(iv[0]))))
				} else {
					ds = append(ds, c.And(c.Ule(c.BVConst(8, uint64(iv[0])), t), c.Ule(t, c.BVConst(8, uint64(iv[1])))))
				}
			}
			alts[k] = c.Or(ds...)
		}
		k := e.choose(alts, true)
		out[i] = classes[k].rep
	}
	return string(out)
}

type byteClass struct {
	ivs [][2]int
	rep byte
}

// regexpClasses partitions 0..255 by membership in the literal runes / class ranges of the pattern.
func regexpClasses(pat string) []byteClass {
	rx, err := syntax.Parse(pat, syntax.Perl)
	if err != nil {
		return nil
	}
	var ranges [][2]rune
	okp := true
	var walk func(r *syntax.Regexp)
	walk = func(r *syntax.Regexp) {
		switch r.Op {
		case syntax.OpLiteral:
			for _, x := range r.Rune {
				ranges = append(ranges, [2]rune{x, x})
			}
			if r.Flags&syntax.FoldCase != 0 {
				okp = false
			}
		case syntax.OpCharClass:
			for i := 0; i+1 < len(r.Rune); i += 2 {
				ranges = append(ranges, [2]rune{r.Rune[i], r.Rune[i+1]})
			}
		case syntax.OpAnyChar, syntax.OpAnyCharNotNL, syntax.OpWordBoundary, syntax.OpNoWordBoundary:
			okp = false
		}
		for _, s := range r.Sub {
			walk(s)
		}
	}
	walk(rx)
	if !okp {
		return nil
	}
	for _, r := range ranges {
		if r[1] > 127 {
			return nil
		}
	}
	sig := func(b int) string {
		var sb strings.Builder
		for k, r := range ranges {
			if rune(b) >= r[0] && rune(b) <= r[1] {
				fmt.Fprintf(&sb, "%d,", k)
			}
		}
		return sb.String()
	}
	idx := map[string]int{}
	var out []byteClass
	start := 0
	cur := sig(0)
	flush := func(end int) {
		k, ok := idx[cur]
		if !ok {
			k = len(out)
			idx[cur] = k
			rep := byte(start)
			if cur == "" {
				rep = 0x01 // an ASCII control byte no class contains
				if sig(1) != "" {
					rep = byte(start)
				}
			}
			out = append(out, byteClass{rep: rep})
		}
		out[k].ivs = append(out[k].ivs, [2]int{start, end})
	}
	for b := 1; b < 256; b++ {
		s := sig(b)
		if s != cur {
			flush(b - 1)
			start, cur = b, s
		}
	}
	flush(255)
	return out
}

func (e *Engine) runeInTable(rt *smt.Term, tab *unicode.RangeTable) *smt.Term {
	var cs []*smt.Term
	c := e.ctx
	add := func(lo, hi, stride uint32) {
		if stride == 1 {
			if lo == hi {
				cs = append(cs, c.Eq(rt, c.BVConst(32, uint64(lo))))
			} else {
				cs = append(cs, c.And(c.Sle(c.BVConst(32, uint64(lo)), rt), c.Sle(rt, c.BVConst(32, uint64(hi)))))
			}
			return
		}
		for x := lo; x <= hi; x += stride {
			cs = append(cs, c.Eq(rt, c.BVConst(32, uint64(x))))
		}
	}
	for _, r16 := range tab.R16 {
		add(uint32(r16.Lo), uint32(r16.Hi), uint32(r16.Stride))
	}
	for _, r32 := range tab.R32 {
		add(r32.Lo, r32.Hi, r32.Stride)
	}
	return c.Or(cs...)
}

func (e *Engine) strCat(a, b Value) Value {
	as, ok1 := a.(string)
	bs, ok2 := b.(string)
	if ok1 && ok2 {
		return as + bs
	}
	return e.mkStr(append(append([]*smt.Term{}, e.strBytes(a)...), e.strBytes(b)...))
}

// assertion discharges one Assert(label, cond) on the current path.
func (e *Engine) assertion(label string, c *smt.Term) {
	e.marks["assert:"+label] = true
	c = e.simp(c)
	if c.IsTrue() {
		e.noteObligation(label, true)
		return
	}
	e.Stats.AssertQueries++
	neg := e.ctx.Not(c)
	m, r := e.modelFor(neg)
	e.noteObligation(label, false)
	switch r {
	case smt.Unsat:
		// holds on this path; in the thorough tier a second solver must not disagree
		if e.cfg.CrossSolver != "" && e.mergedDepth == 0 {
			e.crossCheck(label, neg)
		}
	case smt.Sat:
		e.addFinding(Finding{Kind: "assert", Label: label, Model: m})
	default:
		e.addFinding(Finding{Kind: "assert", Label: label, Unknown: true, Msg: "solver returned unknown"})
	}
	// continue under the assumption that the assertion holds
	if c.IsFalse() {
		e.abort(abortInfeasible, "assertion false on every input of this path")
	}
	if r != smt.Unsat {
		if e.check(c) == smt.Unsat {
			e.abort(abortInfeasible, "assertion cannot hold on this path")
		}
		e.addPC(c)
	}
}

func (e *Engine) noteObligation(label string, folded bool) {
	o := e.oblig[label]
	if folded {
		o[1]++
	} else {
		o[0]++
	}
	e.oblig[label] = o
}

// sprintf implements the subset of fmt verbs crd uses; Stringer/error methods of crd
// types are called in the engine.
func (e *Engine) sprintf(format string, va []Value) Value {
	var out Value = ""
	ai := 0
	lit := 0
	for i := 0; i < len(format); i++ {
		if format[i] != '%' {
			continue
		}
		out = e.strCat(out, format[lit:i])
		i++
		sharp := false
		for i < len(format) && strings.ContainsRune("+-# 0", rune(format[i])) {
			if format[i] == '#' {
				sharp = true
			}
			i++
		}
		for i < len(format) && (format[i] >= '0' && format[i] <= '9' || format[i] == '.') {
			e.abort(abortEngine, "Sprintf width/precision not modelled: "+format)
		}
		if i >= len(format) {
			break
		}
		verb := format[i]
		lit = i + 1
		if verb == '%' {
			out = e.strCat(out, "%")
			continue
		}
		if ai >= len(va) {
			out = e.strCat(out, "%!"+string(verb)+"(MISSING)")
			continue
		}
		out = e.strCat(out, e.formatVerb(verb, sharp, va[ai]))
		ai++
	}
	out = e.strCat(out, format[lit:])
	return out
}

func (e *Engine) formatVerb(verb byte, sharp bool, a Value) Value {
	iv, ok := a.(iface)
	if !ok {
		e.abort(abortEngine, "Sprintf operand is not an interface")
	}
	if iv.t == nil {
		return "<nil>"
	}
	if verb == 'T' {
		return iv.t.String()
	}
	if sharp {
		e.abort(abortEngine, "Sprintf %#v not modelled")
	}
	// error / Stringer
	if verb == 'v' || verb == 's' || verb == 'q' {
		if er := errOf(iv); er != nil {
			return er.msg
		}
		for _, name := range []string{"Error", "String"} {
			if m := e.findMethod(iv.t, name); m != nil {
				sig := m.Signature
				if sig.Params().Len() == 0 && sig.Results().Len() == 1 && isStringT(sig.Results().At(0).Type()) {
					return e.call(m, []Value{iv.v}, nil)
				}
			}
		}
	}
	switch u := under(iv.t).(type) {
	case *types.Basic:
		switch {
		case isStringT(u):
			if verb == 'q' {
				return strconv.Quote(mustStr(e, iv.v, "%q"))
			}
			return iv.v
		case isBoolT(u):
			if b, ok := iv.v.(bool); ok {
				return strconv.FormatBool(b)
			}
			if e.branch(iv.v) {
				return "true"
			}
			return "false"
		case isFloat(u):
			if f, ok := iv.v.(float64); ok {
				return strconv.FormatFloat(f, 'g', -1, 64)
			}
			e.abort(abortEngine, "formatting a symbolic float")
		}
		if _, signed, ok := intInfo(u); ok {
			if !isSym(iv.v) {
				if signed {
					return strconv.FormatInt(iv.v.(int64), 10)
				}
				return strconv.FormatUint(iv.v.(uint64), 10)
			}
			if signed {
				return e.callModel("FormatInt", e.conv(types.Typ[types.Int], iv.t, iv.v))
			}
			return e.callModel("FormatUint", e.conv(types.Typ[types.Uint], iv.t, iv.v))
		}
	case *types.Slice:
		if eb, ok := under(u.Elem()).(*types.Basic); ok && eb.Kind() == types.Uint8 && verb == 's' {
			return e.byteValsToStr(iv.v.(sliceV).a)
		}
	case *types.Pointer:
		if verb == 'v' || verb == 's' {
			// pointer-to-struct prints &{...}; not needed for data paths
			return "&{…}"
		}
	case *types.Struct:
		return "{…}"
	}
	e.abort(abortEngine, fmt.Sprintf("Sprintf %%%c of %v not modelled", verb, iv.t))
	return nil
}

// findMethod finds a method by name in the method set of t.
func (e *Engine) findMethod(t types.Type, name string) *ssa.Function {
	ms := e.prog.SSA.MethodSets.MethodSet(t)
	for i := 0; i < ms.Len(); i++ {
		sel := ms.At(i)
		if sel.Obj().Name() == name {
			return e.prog.SSA.MethodValue(sel)
		}
	}
	return nil
}

// writeStdout appends to whatever file object the program's os.Stdout variable holds now.
func (e *Engine) writeStdout(s Value) {
	g := e.prog.Pkgs["os"].Var("Stdout")
	cell, ok := e.globals[g]
	if !ok {
		cell = e.globalCell(g)
	}
	f := e.fileOf(*cell)
	f.put(e.strToByteVals(s))
	if f.std == "stdout" {
		e.stdout = append(e.stdout, s)
	}
}

// crossCheck re-discharges an unsat assertion verdict on another solver.
func (e *Engine) crossCheck(label string, neg *smt.Term) {
	if e.xsolver == nil {
		xs, err := smt.NewSolver(e.cfg.CrossSolver, e.cfg.SolverTimeout)
		if err != nil {
			e.abort(abortEngine, "cannot start cross-check solver: "+err.Error())
		}
		e.xsolver = xs
	}
	xs := e.xsolver
	xs.Lost = false
	xs.Push()
	for _, c := range e.pc {
		xs.Assert(c)
	}
	r := xs.Check(neg)
	if r == smt.Sat {
		xs.EndCheck()
	}
	for xs.Level() > 0 {
		xs.Pop()
	}
	e.Stats.CrossChecked++
	switch r {
	case smt.Sat:
		e.abort(abortEngine, "solver disagreement on assertion "+label+": "+e.cfg.SolverKind+" says unsat, "+e.cfg.CrossSolver+" says sat")
	case smt.Unknown:
		e.Stats.CrossUnknown++
	}
}
