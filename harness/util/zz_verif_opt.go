package util

// ZzOptState builds an Opt cell in an arbitrary state (harness support, overlay only).
func ZzOptState[T any](v T, updated bool) *Opt[T] {
	return &Opt[T]{value: v, updated: updated}
}
