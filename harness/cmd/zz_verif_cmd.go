package main

import (
	"runtime/debug"
	"os"
	"strconv"
	"strings"

	"github.com/berquerant/crd/input/ast"
	"github.com/berquerant/crd/op"
	vf "github.com/berquerant/crd/zz_verif"
	"github.com/berquerant/crd/zz_verif/crdx"
	"github.com/berquerant/crd/zz_verif/spec"
	"github.com/spf13/cobra"
)

// VerifC09MainExit: when the command fails, main exits with a non-zero status.
func VerifC09MainExit() {
	if vf.Native() {
		return // decided on the engine's model of Execute; the real binary is exercised by the CLI harnesses
	}
	fails := vf.NondetIntRange("fails", 0, 1) == 1
	vf.ExecuteFails(fails)
	code := vf.ExitCodeOf(main)
	if fails {
		vf.Assert("failure-exits-non-zero", code > 0)
	} else {
		vf.Assert("success-exits-zero", code == -1 || code == 0)
	}
	vf.Reach("end")
}

func verifDoc(symbol string) string { return verifDocBase(symbol, "3") }

// verifDocBase: base "" means no bass is written.
func verifDocBase(symbol, base string) string {
	b := "    base: \"" + base + "\"\n"
	if base == "" {
		b = ""
	}
	return "- chord:\n    degree: \"5\"\n    name: \"" + symbol + "\"\n" + b + "  values:\n    - \"1\"\n    - \"1/2\"\n  bpm: 90\n  meta:\n    lic: la\n- values:\n    - \"2\"\n- chord:\n    degree: b3\n    name: \"\"\n  values:\n    - \"3/4\"\n  key: G\n  velocity: ff\n"
}

func verifReset(paths ...string) {
	for _, p := range paths {
		os.Remove(p)
	}
}

// VerifC09WriteConv: `write conv` never panics; a missing or unknown --command is refused
// with an error and nothing is written.
func VerifC09WriteConv() {
	in, out := vf.TempPath("conv-in.yml"), vf.TempPath("conv-out.yml")
	verifReset(in, out)
	defer verifReset(in, out)
	os.WriteFile(in, []byte(verifDoc("m7")), 0o644)
	c := []string{"cmt", "nosuch", "", "cmt,nosuch"}[vf.NondetIntRange("command", 0, 3)]
	args := []string{"--output", out}
	if c != "" {
		args = append(args, "--command", c)
	}
	vf.Assert("flags-parse", writeCmdConv.ParseFlags(args) == nil)
	err := writeCmdConv.RunE(writeCmdConv, []string{in})
	b, rerr := os.ReadFile(out)
	if c == "cmt" {
		vf.Assert("known-command-succeeds", err == nil && rerr == nil && len(b) > 0)
		vf.Reach("converted")
	} else {
		vf.Assert("unknown-or-missing-command-is-refused", err != nil)
		vf.Assert("nothing-written-on-failure", rerr != nil || len(b) == 0)
		vf.Reach("refused")
	}
	vf.Reach("end")
}

func verifSameInstances(a, b []op.Instance) bool {
	if len(a) != len(b) {
		return false
	}
	for i := range a {
		x, y := a[i], b[i]
		if (x.Chord == nil) != (y.Chord == nil) || len(x.Values) != len(y.Values) {
			return false
		}
		if x.Chord != nil {
			if x.Chord.Degree != y.Chord.Degree || x.Chord.Base != y.Chord.Base || x.Chord.Chord.Name != y.Chord.Chord.Name {
				return false
			}
		}
		for j := range x.Values {
			if x.Values[j] != y.Values[j] {
				return false
			}
		}
		if (x.BPM == nil) != (y.BPM == nil) || (x.BPM != nil && *x.BPM != *y.BPM) {
			return false
		}
		if (x.Key == nil) != (y.Key == nil) || (x.Key != nil && *x.Key != *y.Key) {
			return false
		}
		if (x.Velocity == nil) != (y.Velocity == nil) || (x.Velocity != nil && *x.Velocity != *y.Velocity) {
			return false
		}
		if (x.Meter == nil) != (y.Meter == nil) || (x.Meter != nil && *x.Meter != *y.Meter) {
			return false
		}
	}
	return true
}

// VerifC10WriteConvPipe: what `write conv` prints is accepted by `write` and means the same
// chords, bass notes, durations and settings.
func VerifC10WriteConvPipe() {
	in, out := vf.TempPath("pipe-in.yml"), vf.TempPath("pipe-out.yml")
	verifReset(in, out)
	defer verifReset(in, out)
	symbol := []string{"m7", "", "sus4", "MinorTriad", "dim7"}[vf.NondetIntRange("symbol", 0, 4)]
	base := []string{"3", "", "#1", "bb1", "b7", "#11", "1", "8"}[vf.NondetIntRange("base", 0, 7)]
	// a user dictionary may be in force on both sides of the pipe: one that gives the display
	// symbol of a built-in chord to a chord of its own, while the piece names the built-in chord
	// by its long name — the chord meant is the one named, whatever `write conv` prints for it
	var dictFlags []string
	if vf.NondetIntRange("user-dictionary", 0, 1) == 1 {
		dict := vf.TempPath("pipe-dict.yml")
		os.Remove(dict)
		defer os.Remove(dict)
		os.WriteFile(dict, []byte("- name: ShellSeventh\n  meta:\n    display: \"7\"\n  attributes:\n    - Perfect1\n    - Major3\n    - Minor7\n"), 0o644)
		dictFlags = []string{"--chord", dict}
		symbol = "DominantSeventh"
	}
	// the lyric text: plain, or one of the texts YAML printers and readers are known to
	// stumble over (these go through the real library, concretely)
	lyrics := []string{"la", " lead", "trail ", "a: b", "#x", "- y", "~", "null", "two\nlines\n", "\n x", "\ttab", "it's \"q\"", "é\u3000", "end\n\n", "fine\u00a0", "\tla\nla", "\u2028la\nla", " la\nla", "la\n la\n"}
	lyric := lyrics[vf.NondetIntRange("lyric", 0, len(lyrics)-1)]
	doc := strings.Replace(verifDocBase(symbol, base), "    lic: la\n", "    lic: "+strconv.Quote(lyric)+"\n", 1)
	// the piece may close with a rest that carries the same text: then the text is the very
	// last thing `write conv` prints
	closing := vf.NondetIntRange("lyric-also-on-a-closing-rest", 0, 1) == 1
	n := 3
	if closing {
		doc += "- values:\n    - \"1\"\n  meta:\n    lic: " + strconv.Quote(lyric) + "\n"
		n = 4
	}
	os.WriteFile(in, []byte(doc), 0o644)
	vf.Assert("flags-parse", writeCmdConv.ParseFlags(append([]string{"--output", out, "--command", "cmt"}, dictFlags...)) == nil)
	vf.Assert("conv-succeeds", writeCmdConv.RunE(writeCmdConv, []string{in}) == nil)
	vf.Assert("flags-parse", writeCmdParse.ParseFlags(dictFlags) == nil)
	orig, err1 := newWriteCmdArgs(writeCmdParse, []string{in})
	again, err2 := newWriteCmdArgs(writeCmdParse, []string{out})
	if dictFlags != nil {
		writeCmdParse.ParseFlags([]string{"--chord", ""})
		vf.Assert("named-chord-is-the-built-in-one", err1 != nil || (orig.instances[0].Chord != nil && orig.instances[0].Chord.Chord.Name == "DominantSeventh"))
	}
	vf.Assert("original-is-accepted-by-write", err1 == nil && orig != nil)
	vf.Assert("conv-output-is-accepted-by-write", err2 == nil && again != nil)
	if err1 != nil || err2 != nil {
		return
	}
	vf.Assert("conv-output-means-the-same-music", verifSameInstances(orig.instances, again.instances))
	vf.Assert("chord-text-added", len(again.instances) == n && again.instances[0].Meta != nil && again.instances[0].Meta.Get("txt") != "")
	vf.Assert("lyric-text-survives-write-conv", len(again.instances) == n && again.instances[0].Meta != nil && again.instances[0].Meta.Get("lic") == lyric && orig.instances[0].Meta.Get("lic") == lyric)
	if closing {
		vf.Assert("closing-lyric-survives-write-conv", len(again.instances) == n && len(orig.instances) == n && again.instances[n-1].Meta != nil && orig.instances[n-1].Meta != nil &&
			again.instances[n-1].Meta.Get("lic") == lyric && orig.instances[n-1].Meta.Get("lic") == lyric)
	}
	vf.Reach("end")
}

// VerifC01FlagOverride: --bpm/--meter/--key/--velocity replace the first instance's settings
// and nothing else. Each flag is absent, set to an unusual value, or set to the very value
// crd uses as its default (C, 100, 4/4, mp) — which is still an explicit override of what the
// first instance says.
func VerifC01FlagOverride() {
	in := vf.TempPath("flags-in.yml")
	verifReset(in)
	defer verifReset(in)
	doc := strings.Replace(verifDoc("m7"), "  bpm: 90\n", "  bpm: 90\n  key: G\n  meter: 3/4\n  velocity: ff\n", 1)
	// the piece may also open with a rest that carries the settings (the flags replace the
	// first instance's settings whatever that instance is)
	firstIsRest := vf.NondetIntRange("first-is-a-rest", 0, 1) == 1
	if firstIsRest {
		doc = "- values:\n    - \"1\"\n  bpm: 90\n  key: G\n  meter: 3/4\n  velocity: ff\n" + strings.Replace(doc, "  bpm: 90\n  key: G\n  meter: 3/4\n  velocity: ff\n", "", 1)
	}
	os.WriteFile(in, []byte(doc), 0o644)
	var args []string
	keyC := vf.NondetIntRange("key", 0, 2)
	bpmC := vf.NondetIntRange("bpm", 0, 2)
	meterC := vf.NondetIntRange("meter", 0, 2)
	velC := vf.NondetIntRange("velocity", 0, 2)
	keyV := []string{"G", "Ebm", "C"}[keyC]
	bpmV := []string{"90", "150", "100"}[bpmC]
	meterV := []string{"3/4", "6/8", "4/4"}[meterC]
	velV := []string{"ff", "pp", "mp"}[velC]
	if keyC > 0 {
		args = append(args, "--key", keyV)
	}
	if bpmC > 0 {
		args = append(args, "--bpm", bpmV)
	}
	if meterC > 0 {
		args = append(args, "--meter", meterV)
	}
	if velC > 0 {
		args = append(args, "--velocity", velV)
	}
	vf.Assert("flags-parse", writeCmd.ParseFlags(args) == nil && writeCmdParse.ParseFlags(nil) == nil)
	base, berr := newWriteCmdArgs(writeCmdParse, []string{in})
	got, err := newWriteCmdArgs(writeCmd, []string{in})
	vf.Assert("documents-load", err == nil && berr == nil && got != nil && base != nil && len(got.instances) == len(base.instances) && len(got.instances) >= 3)
	if err != nil || berr != nil {
		return
	}
	f, b := got.instances[0], base.instances[0]
	// (the effective value is compared: leaving a setting unset when it equals crd's default
	// would mean the same file)
	effKey, effBPM, effMeter, effVel := "C", uint(100), "4/4", op.MezzoPiano
	if f.Key != nil {
		effKey = f.Key.String()
	}
	if f.BPM != nil {
		effBPM = uint(*f.BPM)
	}
	if f.Meter != nil {
		effMeter = []string{"0", "1", "2", "3", "4", "5", "6"}[f.Meter.Num%7] + "/" + []string{"0", "1", "2", "3", "4", "5", "6", "7", "8"}[f.Meter.Denom%9]
	}
	if f.Velocity != nil {
		effVel = *f.Velocity
	}
	vf.Assert("key-flag-replaces-first-instance-key", effKey == keyV)
	vf.Assert("bpm-flag-replaces-first-instance-bpm", effBPM == map[string]uint{"90": 90, "150": 150, "100": 100}[bpmV])
	vf.Assert("meter-flag-replaces-first-instance-meter", effMeter == meterV)
	vf.Assert("velocity-flag-replaces-first-instance-dynamic", effVel == op.NewDynamicSign(velV))
	if firstIsRest {
		vf.Assert("flags-leave-the-music-alone", f.Chord == nil && b.Chord == nil && len(f.Values) == len(b.Values))
	} else {
		vf.Assert("flags-leave-the-music-alone", f.Chord != nil && b.Chord != nil && f.Chord.Degree == b.Chord.Degree && f.Chord.Base == b.Chord.Base && f.Chord.Chord.Name == b.Chord.Chord.Name && len(f.Values) == len(b.Values))
	}
	rest := append([]op.Instance{}, got.instances[1:]...)
	vf.Assert("flags-touch-only-the-first-instance", verifSameInstances(rest, base.instances[1:]))
	// (the flags are persistent, the reference command may see them too: what the later
	// instances say is also stated outright — the closing chord modulates to G and is played ff)
	last := got.instances[len(got.instances)-1]
	vf.Assert("later-key-change-survives-the-flags", last.Key != nil && last.Key.String() == "G" && last.Velocity != nil && *last.Velocity == op.Fortissimo && last.BPM == nil && last.Meter == nil)
	for _, mid := range got.instances[1 : len(got.instances)-1] {
		vf.Assert("instances-without-settings-get-none", mid.Key == nil && mid.Velocity == nil && mid.BPM == nil && mid.Meter == nil)
	}
	vf.Reach("end")
}

// verifCapture runs f with os.Stdout redirected to a scratch file and returns what was printed.
func verifCapture(name string, f func() error) (string, error) {
	p := vf.TempPath(name)
	os.Remove(p)
	file, cerr := os.Create(p)
	if cerr != nil {
		return "", cerr
	}
	old := os.Stdout
	os.Stdout = file
	var err error
	func() {
		// restored also when f panics, so that the panic is reported on the real stdout
		defer func() { os.Stdout = old }()
		err = f()
	}()
	file.Close()
	b, _ := os.ReadFile(p)
	os.Remove(p)
	return string(b), err
}

// VerifC12KeyConvOutput: `info key conv` prints the same bytes on every run (the keys of
// the result are a Go map).
func VerifC12KeyConvOutput() {
	key := []string{"B", "Db", "Ebm", "C", "F#", "G#m"}[vf.NondetIntRange("key", 0, 5)]
	chain := []string{"d", "s", "r", "p", "dd", "rp"}[vf.NondetIntRange("chain", 0, 5)]
	vf.Assert("flags-parse", infoKeyCmdConv.ParseFlags([]string{"--key", key, "--command", chain}) == nil)
	ref, err := verifCapture("conv-ref.txt", func() error { return infoKeyCmdConv.RunE(infoKeyCmdConv, nil) })
	vf.Assert("conversion-succeeds", err == nil && ref != "")
	reps := 1
	if vf.Native() {
		reps = 40
	}
	for i := 0; i < reps; i++ {
		vf.NondetMapOrder(true)
		got, gerr := verifCapture("conv-got.txt", func() error { return infoKeyCmdConv.RunE(infoKeyCmdConv, nil) })
		vf.NondetMapOrder(false)
		vf.Assert("key-conv-output-independent-of-map-order", gerr == nil && got == ref)
	}
	vf.Reach("end")
}

// VerifC12KeyListOutput: `info key list` prints the same bytes on every run.
func VerifC12KeyListOutput() {
	vf.Assert("flags-parse", infoKeyCmdList.ParseFlags(nil) == nil)
	ref, err := verifCapture("list-ref.txt", func() error { return infoKeyCmdList.RunE(infoKeyCmdList, nil) })
	vf.Assert("listing-succeeds", err == nil && ref != "")
	reps := 1
	if vf.Native() {
		reps = 40
	}
	for i := 0; i < reps; i++ {
		vf.NondetMapOrder(true)
		got, gerr := verifCapture("list-got.txt", func() error { return infoKeyCmdList.RunE(infoKeyCmdList, nil) })
		vf.NondetMapOrder(false)
		vf.Assert("key-list-output-independent-of-map-order", gerr == nil && got == ref)
	}
	vf.Reach("end")
}

// VerifC13ListCmd: `info key list` through the real command: exactly the 28 supported keys,
// each once, each with the seven notes and the signature of its scale (reference: spec).
func VerifC13ListCmd() {
	vf.Assert("flags-parse", infoKeyCmdList.ParseFlags([]string{"--output", ""}) == nil)
	vf.NondetMapOrder(true) // whatever order Go's maps are walked in
	out, err := verifCapture("keylist-out.txt", func() error { return infoKeyCmdList.RunE(infoKeyCmdList, nil) })
	vf.NondetMapOrder(false)
	vf.Assert("listing-succeeds", err == nil && out != "")
	// entries: "- key: K", then "    - NOTE" lines, then "sharp: n" / "flat: n"
	type entry struct {
		notes       []string
		sharp, flat string
	}
	entries := map[string]*entry{}
	count := 0
	var cur *entry
	for _, line := range strings.Split(out, "\n") {
		switch {
		case strings.HasPrefix(line, "- key: "):
			cur = &entry{}
			entries[strings.Trim(strings.TrimPrefix(line, "- key: "), "'\"")] = cur
			count++
		case strings.HasPrefix(line, "    - ") && cur != nil:
			cur.notes = append(cur.notes, strings.Trim(strings.TrimPrefix(line, "    - "), "'\""))
		case strings.HasPrefix(line, "  sharp: ") && cur != nil:
			cur.sharp = strings.TrimPrefix(line, "  sharp: ")
		case strings.HasPrefix(line, "  flat: ") && cur != nil:
			cur.flat = strings.TrimPrefix(line, "  flat: ")
		}
	}
	vf.Assert("twenty-eight-entries-no-key-twice", count == 28 && len(entries) == 28)
	digits := []string{"", "1", "2", "3", "4", "5", "6", "7"}
	for l := 0; l < 7; l++ {
		for a := -1; a <= 1; a++ {
			for _, minor := range []bool{false, true} {
				if !spec.IsListedKey(l, a, minor) {
					continue
				}
				name := verifNoteText(l, a) + map[bool]string{true: "m", false: ""}[minor]
				e := entries[name]
				vf.Assert("every-supported-key-is-listed", e != nil)
				if e == nil {
					continue
				}
				sig := spec.Signature(l, a, minor)
				ok := len(e.notes) == 7
				for i := 0; ok && i < 7; i++ {
					ok = e.notes[i] == verifNoteText((l+i)%7, spec.AccidentalInKey((l+i)%7, sig))
				}
				vf.Assert("listed-key-has-its-own-seven-notes", ok)
				if sig >= 0 {
					vf.Assert("listed-signature", e.sharp == digits[sig] && e.flat == "")
				} else {
					vf.Assert("listed-signature", e.flat == digits[-sig] && e.sharp == "")
				}
			}
		}
	}
	vf.Reach("end")
}

// verifStale: an earlier, much longer result left in the -o file.
func verifStale() string { return strings.Repeat("- old: line\n", 400) }

// VerifC12IOPaths: `text parse` prints the same bytes whether the text comes from FILE, from
// stdin or from `-`, and whether the result goes to stdout or to the -o file.
func VerifC12IOPaths() {
	in, out := vf.TempPath("io-in.txt"), vf.TempPath("io-out.yml")
	verifReset(in, out)
	defer verifReset(in, out)
	text := []string{"C[1] D_m7/F[2,1/2]{txt=hi} R[1]\n", "4[1]  ; comment\n2b_m7[3/4]", "C[", "", "\ufeffC[1] G_7[2]\n"}[vf.NondetIntRange("text", 0, 4)]
	os.WriteFile(in, []byte(text), 0o644)
	// the command: text parse, or one of the two conversions (a text in the other notation is
	// refused — on every path alike)
	tc := []*cobra.Command{textCmdParse, textCmdConvSyllable, textCmdConvDegree}[vf.NondetIntRange("command", 0, 2)]
	run := func(args []string, useStdin bool, toFile bool) (string, error) {
		flags := []string{"--output", ""}
		if toFile {
			os.Remove(out)
			if vf.NondetIntRange("stale-output-file", 0, 1) == 1 {
				// the -o file already holds a (longer) result of an earlier run
				os.WriteFile(out, []byte(verifStale()), 0o644)
			}
			flags = []string{"--output", out}
		}
		if err := tc.ParseFlags(flags); err != nil {
			return "", err
		}
		if useStdin {
			// the text arrives whole, or (a pipe whose producer is slow) in two portions
			portion := []int{0, 1, len(text) / 2}[vf.NondetIntRange("stdin-first-portion", 0, 2)]
			restore, err := vf.StdinFrom(in, portion)
			if err != nil {
				return "", err
			}
			defer restore()
		}
		printed, err := verifCapture("io-stdout.txt", func() error { return tc.RunE(tc, args) })
		if toFile {
			b, _ := os.ReadFile(out)
			if printed != "" {
				return "stdout-not-empty:" + printed, err
			}
			if err != nil && string(b) == verifStale() {
				// a failing command may leave an earlier result file untouched: it wrote no result
				return "", err
			}
			return string(b), err
		}
		return printed, err
	}
	ref, rerr := run([]string{in}, false, false)
	viaStdin, e1 := run(nil, true, false)
	viaDash, e2 := run([]string{"-"}, true, false)
	toFile, e3 := run([]string{in}, false, true)
	vf.Assert("same-outcome-on-every-input-path", (rerr == nil) == (e1 == nil) && (rerr == nil) == (e2 == nil) && (rerr == nil) == (e3 == nil))
	vf.Assert("stdin-same-bytes-as-file", viaStdin == ref)
	vf.Assert("dash-same-bytes-as-file", viaDash == ref)
	vf.Assert("output-file-same-bytes-as-stdout", toFile == ref)
	// converting a file in place: -o names the very file the text is read from
	vf.Assert("flags-parse", tc.ParseFlags([]string{"--output", in}) == nil)
	printed, e4 := verifCapture("io-stdout.txt", func() error { return tc.RunE(tc, []string{in}) })
	tc.ParseFlags([]string{"--output", ""})
	after, _ := os.ReadFile(in)
	vf.Assert("in-place-same-outcome", (e4 == nil) == (rerr == nil) && printed == "")
	if rerr == nil {
		vf.Assert("in-place-same-bytes-as-stdout", string(after) == ref)
	} // (what a failing command leaves in the -o file is not part of the statement)
	if rerr != nil {
		vf.Assert("nothing-printed-on-failure", ref == "")
		vf.Reach("failed")
	} else {
		vf.Assert("something-printed-on-success", ref != "")
		vf.Reach("printed")
	}
	vf.Reach("end")
}

type verifAbsEvent struct {
	tick   uint32
	status byte
	meta   byte
	data   string
}

func verifAbsEvents(f *spec.SMFFile) (merged []verifAbsEvent, ends []uint32) {
	for _, evs := range f.Tracks {
		var abs uint32
		for _, ev := range evs {
			abs += ev.Delta
			if ev.Status == 0xFF && ev.MetaType == 0x2F {
				ends = append(ends, abs)
				continue
			}
			merged = append(merged, verifAbsEvent{tick: abs, status: ev.Status, meta: ev.MetaType, data: string(ev.Data)})
		}
	}
	return
}

func verifCountEvent(xs []verifAbsEvent, x verifAbsEvent) int {
	n := 0
	for _, y := range xs {
		if y == x {
			n++
		}
	}
	return n
}

// VerifC08WriteCmd: `crd write --track N` end to end on whole documents: the bytes are a
// well-formed SMF with N tracks; merged over the tracks the events and their absolute ticks
// are those of --track 1; every track ends at the total duration (trailing rests included);
// tempo, time and key signature sit at tick 0 of the first track.
func VerifC08WriteCmd() {
	in, out := vf.TempPath("write-in.yml"), vf.TempPath("write-out.mid")
	verifReset(in, out)
	defer verifReset(in, out)
	doc := []string{
		verifDoc("m7"),
		"- values: [\"1/2\"]\n- chord:\n    degree: \"1\"\n    name: \"9\"\n  values: [\"1\", \"1/3\"]\n  meta:\n    txt: héllo\n- chord:\n    degree: \"4\"\n    name: sus4\n  values: [\"2\"]\n- values: [\"3\"]\n- values: [\"1/4\"]\n",
		// settings and texts restated with the same value on later instances (each is an event
		// of its own at its own instance, whatever the track count), a text right after a rest
		"- chord: {degree: \"1\", name: \"\"}\n  values: [\"1\"]\n  key: G\n  bpm: 90\n  meta: {lic: la}\n- chord: {degree: \"4\", name: m7}\n  values: [\"1\"]\n  meta: {lic: la}\n- chord: {degree: \"5\", name: \"7\"}\n  values: [\"1/2\"]\n  key: G\n  bpm: 90\n- values: [\"2\"]\n- chord: {degree: \"1\", name: \"\"}\n  values: [\"1\"]\n  meta: {mrk: verse 2, lic: la}\n",
	}[vf.NondetIntRange("doc", 0, 2)]
	total := uint32(960 + 960 + 480 + 1920 + 960)
	if doc == verifDoc("m7") {
		total = 960 + 480 + 1920 + 720
	} else if strings.HasPrefix(doc, "- values: [\"1/2\"]") {
		total = 480 + 960 + 320 + 1920 + 2880 + 240
	}
	os.WriteFile(in, []byte(doc), 0o644)
	n := vf.NondetIntRange("tracks", 1, vf.Param("C08.cmdTracks", 4))
	// the file goes to -o or to standard output; any program number the flag accepts
	toStdout := vf.NondetIntRange("to-stdout", 0, 1) == 1
	program := []string{"0", "56", "127", "128", "200", "255"}[vf.NondetIntRange("program", 0, 5)]
	write := func(tracks int) *spec.SMFFile {
		os.Remove(out)
		o := out
		if toStdout {
			o = ""
		}
		vf.Assert("flags-parse", writeCmd.ParseFlags([]string{"--output", o, "--program", program, "--track", []string{"0", "1", "2", "3", "4", "5", "6", "7", "8"}[tracks]}) == nil)
		printed, err := verifCapture("write-stdout.bin", func() error { return writeCmd.RunE(writeCmd, []string{in}) })
		writeCmd.ParseFlags([]string{"--output", "", "--program", "0"})
		vf.Assert("write-succeeds", err == nil)
		b, rerr := os.ReadFile(out)
		if toStdout {
			b, rerr = []byte(printed), nil
		}
		vf.Assert("file-written", rerr == nil && len(b) > 0)
		f, why := spec.ParseSMF(b)
		vf.Assert("well-formed-smf", f != nil && why == "")
		return f
	}
	one := write(1)
	many := write(n)
	if one == nil || many == nil {
		return
	}
	vf.Assert("format-word", many.Format == vf.Ite(n == 1, 0, 1) && one.Format == 0)
	vf.Assert("track-count", many.NTracks == n && len(many.Tracks) == n)
	ref, refEnds := verifAbsEvents(one)
	got, ends := verifAbsEvents(many)
	vf.Assert("same-number-of-events-whatever-the-track-count", len(ref) == len(got))
	for _, x := range ref {
		vf.Assert("same-events-at-the-same-ticks-whatever-the-track-count", verifCountEvent(ref, x) == verifCountEvent(got, x))
	}
	vf.Assert("one-end-of-track-per-track", len(ends) == n && len(refEnds) == 1)
	for _, e := range append(ends, refEnds...) {
		vf.Assert("every-track-ends-at-the-total-duration", e == total)
	}
	// tick 0 of track 0 states tempo, time signature and key signature
	var tempo, meter, keysig bool
	var abs uint32
	for _, ev := range many.Tracks[0] {
		abs += ev.Delta
		if abs == 0 && ev.Status == 0xFF {
			tempo = tempo || ev.MetaType == 0x51
			meter = meter || ev.MetaType == 0x58
			keysig = keysig || ev.MetaType == 0x59
		}
	}
	vf.Assert("tempo-meter-key-at-tick-0-of-first-track", tempo && meter && keysig)
	vf.Reach("end")
}

// VerifC08LongDurations: times in a MIDI file are 28-bit quantities. A document whose durations
// do not fit — one value, several values of one instance, or consecutive rests that add up —
// is either refused or written as a well-formed file that ends at the exact total; it is never
// written with a 5-byte delta or with a tick count that wrapped. A piece just below the limit
// is written.
func VerifC08LongDurations() {
	in, out := vf.TempPath("long-in.yml"), vf.TempPath("long-out.mid")
	verifReset(in, out)
	defer verifReset(in, out)
	chord := "- chord: {degree: \"1\", name: \"7\"}\n  values: "
	docs := []struct {
		text  string
		beats uint64 // total, in beats (all values are whole numbers)
	}{
		{chord + "[\"300000\"]\n- values: [\"1\"]\n", 300001},
		{"- values: [\"150000\"]\n- values: [\"150000\"]\n" + chord + "[\"1\"]\n", 300001},
		{chord + "[\"279000\"]\n- values: [\"1\"]\n", 279001},
		{chord + "[\"5000000\"]\n", 5000000},
		{chord + "[\"200000\", \"200000\"]\n", 400000},
		{chord + "[\"1\"]\n- values: [\"4473925\"]\n", 4473926}, // 2^32 ticks and a bit
	}
	d := docs[vf.NondetIntRange("doc", 0, len(docs)-1)]
	os.WriteFile(in, []byte(d.text), 0o644)
	tracks := []string{"1", "2", "5"}[vf.NondetIntRange("tracks", 0, 2)]
	vf.Assert("flags-parse", writeCmd.ParseFlags([]string{"--output", out, "--program", "0", "--track", tracks}) == nil)
	err := writeCmd.RunE(writeCmd, []string{in})
	writeCmd.ParseFlags([]string{"--output", "", "--track", "1"})
	fits := d.beats*960 < 1<<28
	if fits {
		vf.Assert("piece-below-the-limit-is-written", err == nil)
	}
	if err != nil {
		vf.Reach("refused")
		return
	}
	b, rerr := os.ReadFile(out)
	f, why := spec.ParseSMF(b)
	vf.Assert("long-piece-written-is-well-formed", rerr == nil && f != nil && why == "")
	if f != nil {
		_, ends := verifAbsEvents(f)
		for _, e := range ends {
			vf.Assert("long-piece-ends-at-the-exact-total", uint64(e) == d.beats*960)
		}
	}
	vf.Reach("written")
}

// VerifC02PlainIntegers: a duration means the same number of beats however YAML lets it be
// written: plain, quoted, with leading zeros (`010` is ten beats, not the octal eight), as a
// fraction with leading zeros. The file ends at the exact total.
func VerifC02PlainIntegers() {
	in, out := vf.TempPath("ints-in.yml"), vf.TempPath("ints-out.mid")
	verifReset(in, out)
	defer verifReset(in, out)
	forms := []struct {
		values string
		ticks  uint32
	}{
		{"[010]", 9600}, {"[012, 1/2]", 12000}, {"[\"010\"]", 9600}, {"[010/4]", 2400}, {"[08]", 7680}, {"[10]", 9600},
		{"[0010, 07]", 16320}, {"\n    - 010\n    - \"1/3\"", 9920}, {"[1, 010]", 10560},
	}
	f := forms[vf.NondetIntRange("form", 0, len(forms)-1)]
	doc := "- chord: {degree: \"1\", name: \"\"}\n  values: " + f.values + "\n- chord: {degree: \"5\", name: \"7\"}\n  values: [\"1\"]\n"
	if vf.NondetIntRange("on-a-rest", 0, 1) == 1 {
		doc = "- values: " + f.values + "\n- chord: {degree: \"5\", name: \"7\"}\n  values: [\"1\"]\n"
	}
	os.WriteFile(in, []byte(doc), 0o644)
	vf.Assert("flags-parse", writeCmd.ParseFlags([]string{"--output", out, "--program", "0", "--track", "1"}) == nil)
	err := writeCmd.RunE(writeCmd, []string{in})
	writeCmd.ParseFlags([]string{"--output", ""})
	vf.Assert("every-way-of-writing-a-whole-number-is-accepted", err == nil)
	if err != nil {
		return
	}
	b, rerr := os.ReadFile(out)
	smf, why := spec.ParseSMF(b)
	vf.Assert("well-formed-smf", rerr == nil && smf != nil && why == "")
	if smf == nil {
		return
	}
	evs, ends := verifAbsEvents(smf)
	vf.Assert("piece-ends-at-the-decimal-reading", len(ends) == 1 && ends[0] == f.ticks+960)
	// the second chord strikes where the first instance ends
	second := false
	for _, e := range evs {
		if e.status&0xF0 == 0x90 && e.tick == f.ticks {
			second = true
		}
	}
	vf.Assert("next-chord-starts-at-the-decimal-reading", second)
	vf.Reach("end")
}

// VerifC12DebugFlag: --debug changes neither the bytes on standard output nor the outcome.
func VerifC12DebugFlag() {
	in := vf.TempPath("debug-in.txt")
	verifReset(in)
	defer verifReset(in)
	text := []string{"C[1] Dm[2]\n", "C[", "C[1] ]", "4[1]{x", "", "C[1] ;x\nD_ ;y\nm7[2] F ;c\n#[ ;z\n1]\n"}[vf.NondetIntRange("text", 0, 5)]
	os.WriteFile(in, []byte(text), 0o644)
	run := func(debug bool) (string, error) {
		flags := []string{"--output", ""}
		if debug {
			flags = append(flags, "--debug")
		}
		if err := textCmdParse.ParseFlags(flags); err != nil {
			return "", err
		}
		return verifCapture("debug-out.txt", func() error {
			rootCmd.PersistentPreRun(textCmdParse, nil)
			return textCmdParse.RunE(textCmdParse, []string{in})
		})
	}
	plain, perr := run(false)
	debug, derr := run(true)
	ast.SetDebug(0)
	vf.Assert("debug-same-outcome", (perr == nil) == (derr == nil))
	vf.Assert("debug-same-stdout", plain == debug)
	if perr != nil {
		vf.Assert("nothing-on-stdout-on-failure", plain == "" && debug == "")
		vf.Reach("failed")
	}
	vf.Reach("end")
}

type verifCLICase struct {
	cmd   int // 0 text conv syllable, 1 text conv degree, 2 write, 3 write event, 4 text parse
	input string
	flags []string
}

var verifNonsense = []verifCLICase{
	{0, "C[0]", nil}, {0, "C[1/0]", nil}, {0, "C[0/4]", nil}, {0, "C[1]{bpm=0}", nil}, {0, "C[1]{bpm=fast}", nil}, {0, "C[1]{vel=xx}", nil},
	{0, "C[1]{mtr=0/4}", nil}, {0, "C[1]{mtr=3/0}", nil}, {0, "C[1]{key=Abm}", nil}, {0, "C[1] 4[1]", nil}, {0, "C/4[1]", nil}, {0, "", nil}, {0, "C[1", nil},
	{0, "R[1]{bpm=0}", nil}, {0, "C[1]", []string{"--key", "Abm"}}, {0, "C[1]", []string{"--key", "H"}},
	{1, "1[0]", nil}, {1, "1[1]{vel=loud}", nil}, {1, "1/C[1]", nil}, {1, "0[1]", nil}, {1, "", nil},
	// a key crd has no scale for, in degree notation too (what text conv prints must be playable)
	{1, "1[1]{key=Abm}", nil}, {1, "R[1]{key=G#}", nil}, {0, "R[1]{key=G#}", nil},
	{2, "- values: []\n", nil}, {2, "- chord:\n    degree: \"1\"\n    name: nosuch\n  values: [\"1\"]\n", nil}, {2, "- values: [\"1\"]\n  bpm: 0\n", nil},
	{2, "- values: [\"1\"]\n  velocity: xx\n", nil}, {2, "- values: [\"1\"]\n  key: Abm\n", nil}, {2, "- values: [\"1\"]\n  meter: 0/4\n", nil},
	{2, "[]\n", nil}, {2, "", nil}, {2, "- values: [\"0\"]\n", nil}, {2, "- values: [\"1/0\"]\n", nil}, {2, "- chord:\n    degree: \"0\"\n    name: \"\"\n  values: [\"1\"]\n", nil},
	{2, "- values: [\"1\"]\n", []string{"--velocity", "xx"}}, {2, "- values: [\"1\"]\n", []string{"--meter", "0/0"}}, {2, "- values: [\"1\"]\n", []string{"--key", "H"}},
	{2, "- values: [\"1\"]\n", []string{"--track", "0"}}, {2, "- values: [\"1\"]\n", []string{"--key", "Abm"}}, {2, "- values: [\"1\"]\n  meta: 7\n", nil},
	{3, "- values: []\n", nil}, {3, "- values: [\"1\"]\n  key: Fb\n", nil},
	// settings a MIDI file cannot state: a tempo whose 60,000,000/bpm does not fit the 24-bit
	// field (or rounds to 0), a meter whose numerator does not fit a byte or whose denominator
	// is not a power of two — refused, never written as some other tempo / meter
	{2, "- values: [\"1\"]\n  bpm: 3\n", nil}, {2, "- values: [\"1\"]\n", []string{"--bpm", "2"}}, {2, "- values: [\"1\"]\n  bpm: 60000001\n", nil},
	{2, "- values: [\"1\"]\n  meter: 5/6\n", nil}, {2, "- values: [\"1\"]\n  meter: 256/4\n", nil}, {2, "- values: [\"1\"]\n", []string{"--meter", "4/3"}}, {2, "- values: [\"1\"]\n  meter: 4/256\n", nil},
	{0, "C[1]{bpm=1}", nil}, {0, "C[1]{mtr=7/12}", nil},
	// an instance that is not there at all (YAML null in the list)
	{2, "- ~\n", nil}, {2, "- values: [\"1\"]\n- null\n", nil}, {3, "- values: [\"1\"]\n-\n- values: [\"1\"]\n", nil},
	{4, "C[1] ]", nil}, {4, "{", nil}, {4, "C_[1]", nil},
}

// VerifC09CLINonsense: every class of musically meaningless input makes the first command
// that has to interpret it fail: an error from RunE, nothing on standard output, no MIDI
// bytes in the -o file — never a panic.
func VerifC09CLINonsense() {
	i := vf.NondetIntRange("case", 0, len(verifNonsense)-1)
	c := verifNonsense[i]
	in, out := vf.TempPath("nonsense-in"), vf.TempPath("nonsense-out")
	verifReset(in, out)
	defer verifReset(in, out)
	// the meaningless element is the first thing in the piece, or follows a valid chord /
	// instance (a failing command prints no partial result either)
	input := c.input
	if vf.NondetIntRange("after-a-valid-one", 0, 1) == 1 && input != "" {
		switch {
		case c.cmd == 0 || c.cmd == 4:
			input = "C[2] " + input
		case c.cmd == 1:
			input = "1[2] " + input
		case strings.HasPrefix(input, "- "):
			input = "- values: [\"2\"]\n" + input
		}
	}
	os.WriteFile(in, []byte(input), 0o644)
	cmd := []*cobra.Command{textCmdConvSyllable, textCmdConvDegree, writeCmd, writeCmdEvent, textCmdParse}[c.cmd]
	toFile := vf.NondetIntRange("toFile", 0, 1) == 1
	flags := append([]string{}, c.flags...)
	if toFile {
		flags = append(flags, "--output", out)
	} else {
		flags = append(flags, "--output", "")
	}
	perr := cmd.ParseFlags(flags)
	var rerr error
	printed := ""
	if perr == nil {
		printed, rerr = verifCapture("nonsense-stdout", func() error { return cmd.RunE(cmd, []string{in}) })
	}
	vf.Assert("nonsense-is-refused", perr != nil || rerr != nil)
	vf.Assert("nothing-on-stdout", printed == "")
	b, _ := os.ReadFile(out)
	vf.Assert("no-result-in-the-output-file", len(b) == 0)
	vf.Reach("end")
}

// VerifC09InfoCommands: the info / gen commands never panic on arbitrary short flag values,
// and a failing command prints nothing.
func VerifC09InfoCommands() {
	which := vf.NondetIntRange("command", 0, 5)
	var cmd *cobra.Command
	var flags []string
	rootText, checkRoot := "", false
	switch which {
	case 0:
		cmd = infoCmdAttrDescribe
		target := []string{"Major3", "Diminished5", "nosuch", ""}[vf.NondetIntRange("target", 0, 3)]
		n := vf.NondetIntRange("root.len", 0, vf.Param("C09.flagLen", 2))
		rootText = vf.NondetString("root", n)
		checkRoot = true
		flags = []string{"--target", target, "--root", rootText}
		if vf.NondetIntRange("sharp", 0, 1) == 1 {
			flags = append(flags, "--precedeSharp")
		}
	case 1:
		cmd = infoCmdChordDescribe
		flags = []string{"--target", []string{"C_7", "Caug", "Xm", "", "C/", "Dbm7", "C[", "4m", "C#nosuch", "R", "Cm7/G"}[vf.NondetIntRange("target", 0, 10)]}
	case 2:
		cmd = infoKeyCmdDescribe
		n := vf.NondetIntRange("key.len", 0, vf.Param("C09.flagLen", 2)+1)
		flags = []string{"--key", vf.NondetString("key", n)}
	case 3:
		cmd = infoKeyCmdConv
		n := vf.NondetIntRange("chain.len", 0, vf.Param("C09.flagLen", 2))
		flags = []string{"--key", []string{"C", "Ebm", "Abm", "x"}[vf.NondetIntRange("key", 0, 3)], "--command", vf.NondetString("chain", n)}
	case 4:
		cmd = genCmdAttr
		flags = []string{"--maxDegree", []string{"0", "1", "2", "9", "20", "23"}[vf.NondetIntRange("max", 0, 5)]}
	case 5:
		cmd = []*cobra.Command{infoCmdAttrList, infoCmdChordList, infoKeyCmdList}[vf.NondetIntRange("list", 0, 2)]
	}
	flags = append(flags, "--output", "")
	perr := cmd.ParseFlags(flags)
	if perr != nil {
		vf.Reach("flag-error")
		return
	}
	printed, err := verifCapture("info-stdout", func() error { return cmd.RunE(cmd, nil) })
	if err != nil {
		vf.Assert("nothing-printed-by-a-failing-command", printed == "")
		vf.Reach("failed")
	} else {
		vf.Assert("a-successful-command-prints-its-result", printed != "")
		if checkRoot {
			// a root that is accepted is a note spelling — a letter A..G with an optional # or b
			// (or the Unicode signs) and nothing else — not some text containing one
			ok := len(rootText) >= 1 && rootText[0] >= 'A' && rootText[0] <= 'G'
			rest := ""
			if ok {
				rest = rootText[1:]
			}
			vf.Assert("accepted-root-text-is-a-note-spelling", ok && (rest == "" || rest == "#" || rest == "b" || rest == "♯" || rest == "♭"))
		}
		vf.Reach("printed")
	}
	vf.Reach("end")
}

// VerifC11DescribeAccidental: `info chord describe` honours the Unicode accidental signs the
// chord grammar accepts exactly like # and b: same output, or refused — never another root.
func VerifC11DescribeAccidental() {
	letter := []string{"C", "E", "G"}[vf.NondetIntRange("letter", 0, 2)]
	pair := [][2]string{{"#", "♯"}, {"b", "♭"}}[vf.NondetIntRange("sign", 0, 1)]
	symbol := []string{"", "m7", "_7"}[vf.NondetIntRange("symbol", 0, 2)]
	run := func(sign string) (string, error) {
		if err := infoCmdChordDescribe.ParseFlags([]string{"--output", "", "--target", letter + sign + symbol}); err != nil {
			return "", err
		}
		return verifCapture("describe-acc.txt", func() error { return infoCmdChordDescribe.RunE(infoCmdChordDescribe, nil) })
	}
	ascii, aerr := run(pair[0])
	uni, uerr := run(pair[1])
	plain, perr := run("")
	vf.Assert("ascii-spelling-is-described", aerr == nil && perr == nil && ascii != "" && ascii != plain)
	if uerr == nil {
		vf.Assert("unicode-accidental-is-honoured-in-describe", uni == ascii)
	} else {
		vf.Assert("nothing-printed-on-failure", uni == "")
		vf.Reach("refused")
	}
	vf.Reach("end")
}

// VerifC07BPMFlag: every --bpm value other than 0 becomes the first instance's tempo, whatever
// that instance itself says; 0 (the flag's "not given") leaves it alone. The flag text is 1–3
// symbolic decimal digits, so no particular value can serve as a hidden "unset" sentinel.
func VerifC07BPMFlag() {
	in := vf.TempPath("bpmflag-in.yml")
	verifReset(in)
	defer verifReset(in)
	own := []uint{0, 90, 100, 7}[vf.NondetIntRange("own", 0, 3)]
	doc := verifDoc("m7")
	switch own {
	case 0:
		doc = strings.Replace(doc, "  bpm: 90\n", "", 1)
	case 100:
		doc = strings.Replace(doc, "  bpm: 90\n", "  bpm: 100\n", 1)
	case 7:
		doc = strings.Replace(doc, "  bpm: 90\n", "  bpm: 7\n", 1)
	}
	os.WriteFile(in, []byte(doc), 0o644)
	n := vf.NondetIntRange("digits", 1, vf.Param("C07.bpmDigits", 3))
	txt := vf.NondetString("bpm", n)
	var want uint
	for i := 0; i < n; i++ {
		vf.Assume('0' <= txt[i] && txt[i] <= '9')
		want = want*10 + uint(txt[i]-'0')
	}
	vf.Assume(n == 1 || txt[0] != '0') // a leading 0 would make pflag read octal
	perr := writeCmd.ParseFlags([]string{"--bpm", txt})
	vf.Assert("flag-parses", perr == nil)
	got, err := newWriteCmdArgs(writeCmd, []string{in})
	if want >= 1 && want <= 3 {
		// a tempo a MIDI file cannot state (60,000,000/bpm exceeds 24 bits): refused
		vf.Assert("unstatable-tempo-flag-is-refused", err != nil)
		vf.Reach("flag-given")
		vf.Reach("end")
		return
	}
	vf.Assert("document-loads", err == nil && got != nil && len(got.instances) == 3)
	if err != nil || got == nil {
		return
	}
	f := got.instances[0]
	// the tempo the file starts with: the instance's if it has one, else the default 100
	eff := uint(100)
	if f.BPM != nil {
		eff = uint(*f.BPM)
	}
	if want == 0 {
		vf.Reach("flag-absent")
		vf.Assert("no-flag-keeps-the-instance-tempo", eff == map[bool]uint{true: 100, false: own}[own == 0])
	} else {
		vf.Reach("flag-given")
		vf.Assert("bpm-flag-overrides-the-first-instance-tempo", eff == want)
	}
	vf.Assert("later-instances-keep-their-own", got.instances[1].BPM == nil && got.instances[2].BPM == nil)
	vf.Reach("end")
}

// VerifC12LongInput: a long piece (more elements than any plausible batch size, with a key
// change in the middle and one near the end) converts to the same bytes on every run, whatever
// the CPU count and whichever of the goroutines the command starts runs first, and through
// stdin as through a FILE argument. The short texts of the other harnesses cannot see
// anything that only happens above a size threshold.
func VerifC12LongInput() {
	n := vf.Param("C12.longChords", 520)
	vf.Unwind(400 * n) // the input is concrete; loops run as long as the text is
	var sb strings.Builder
	for i := 0; i < n; i++ {
		switch {
		case i == n/2:
			sb.WriteString("D[1]{key=D} ")
		case i == n-3:
			sb.WriteString("Eb[1/2]{key=Bb}\n")
		case i%7 == 3:
			sb.WriteString("R[1] ; rest\n")
		default:
			sb.WriteString([]string{"D[1] ", "G_m7/Bb[1,1/2] ", "A_7[2] ", "F#_m[1/3] "}[i%4])
		}
	}
	in := vf.TempPath("long-in.txt")
	verifReset(in)
	defer verifReset(in)
	os.WriteFile(in, []byte(sb.String()), 0o644)
	vf.Assert("flags-parse", textCmdConvSyllable.ParseFlags([]string{"--output", "", "--key", "C"}) == nil)
	run := func(useStdin bool) (string, error) {
		args := []string{in}
		if useStdin {
			portion := []int{0, 1, sb.Len() / 2}[vf.NondetIntRange("stdin-first-portion", 0, 2)]
			restore, err := vf.StdinFrom(in, portion)
			if err != nil {
				return "", err
			}
			defer restore()
			args = nil
		}
		return verifCapture("long-stdout.txt", func() error { return textCmdConvSyllable.RunE(textCmdConvSyllable, args) })
	}
	// reference: one CPU, goroutines in starting order
	vf.CPUs(1)
	ref, rerr := run(false)
	vf.Assert("long-piece-converts", rerr == nil && ref != "")
	// nothing is dropped above any buffer or batch size: one top-level item per element
	items := 0
	for i := 0; i+1 < len(ref); i++ {
		if ref[i] == '-' && ref[i+1] == ' ' && (i == 0 || ref[i-1] == '\n') {
			items++
		}
	}
	vf.Assert("every-element-of-a-long-piece-is-converted", items == n)
	// again with another CPU count and an arbitrary choice of who runs first at every start
	vf.CPUs([]int{1, 2, 4, 16}[vf.NondetIntRange("cpus", 0, 3)])
	vf.NondetSpawnOrder(true)
	again, aerr := run(vf.NondetIntRange("stdin", 0, 1) == 1)
	vf.NondetSpawnOrder(false)
	vf.Assert("same-outcome-on-every-run", (aerr == nil) == (rerr == nil))
	vf.Assert("same-bytes-on-every-run", again == ref)
	vf.Reach("end")
}

// VerifC12LongWrite: `write --track 3` on a long instances document: the same bytes on every run
// (CPU count, spawn order, stdin vs FILE), and every chord of the document is in the output.
func VerifC12LongWrite() {
	n := vf.Param("C12.longInstances", 400)
	vf.Unwind(4000 * n)
	var sb strings.Builder
	chords := 0
	for i := 0; i < n; i++ {
		switch {
		case i%5 == 4:
			sb.WriteString("- values: [\"1/2\"]\n")
		case i == n/2:
			sb.WriteString("- chord: {degree: \"4\", name: sus4}\n  values: [\"1\"]\n  key: Eb\n  bpm: 140\n")
			chords++
		default:
			sb.WriteString("- chord: {degree: \"" + []string{"1", "b3", "5"}[i%3] + "\", name: \"\"}\n  values: [\"1\", \"1/3\"]\n")
			chords++
		}
	}
	in := vf.TempPath("longw-in.yml")
	verifReset(in)
	defer verifReset(in)
	os.WriteFile(in, []byte(sb.String()), 0o644)
	out := vf.TempPath("longw-out.mid")
	verifReset(out)
	defer verifReset(out)
	vf.Assert("flags-parse", writeCmd.ParseFlags([]string{"--output", out, "--track", "3"}) == nil)
	run := func(useStdin bool) (string, error) {
		args := []string{in}
		if useStdin {
			portion := []int{0, 1, sb.Len() / 2}[vf.NondetIntRange("stdin-first-portion", 0, 2)]
			restore, err := vf.StdinFrom(in, portion)
			if err != nil {
				return "", err
			}
			defer restore()
			args = []string{"-"}
		}
		os.Remove(out)
		err := writeCmd.RunE(writeCmd, args)
		b, _ := os.ReadFile(out)
		return string(b), err
	}
	vf.CPUs(1)
	ref, rerr := run(false)
	vf.Assert("long-document-is-written", rerr == nil && ref != "")
	f, why := spec.ParseSMF([]byte(ref))
	vf.Assert("well-formed-smf", f != nil && why == "")
	ons := 0
	if f != nil {
		for _, tr := range f.Tracks {
			for _, ev := range tr {
				if ev.Status&0xF0 == 0x90 {
					ons++
				}
			}
		}
	}
	vf.Assert("every-chord-of-a-long-document-is-played", ons == 4*chords)
	vf.CPUs([]int{2, 16}[vf.NondetIntRange("cpus", 0, 1)])
	vf.NondetSpawnOrder(true)
	again, aerr := run(vf.NondetIntRange("stdin", 0, 1) == 1)
	vf.NondetSpawnOrder(false)
	vf.Assert("same-outcome-on-every-run", (aerr == nil) == (rerr == nil))
	vf.Assert("same-bytes-on-every-run", again == ref)
	vf.Reach("end")
}

// VerifC12InfoOutputs: every info / gen command prints the same bytes when any one map
// iteration anywhere in the run takes another order (the listings are built from Go maps in
// several places; none of that order may reach standard output).
func VerifC12InfoOutputs() {
	which := vf.NondetIntRange("command", 0, 7)
	var cmd *cobra.Command
	var flags []string
	switch which {
	case 0:
		cmd = infoCmdAttrList
	case 1:
		cmd = infoCmdChordList
	case 2:
		cmd, flags = infoCmdAttrDescribe, []string{"--target", "Augmented11", "--root", "Eb"}
	case 3:
		cmd, flags = infoCmdChordDescribe, []string{"--target", []string{"Dbm7", "C_9/E", "F#aug"}[vf.NondetIntRange("target", 0, 2)]}
	case 4:
		cmd, flags = infoKeyCmdDescribe, []string{"--key", []string{"F#", "Ebm"}[vf.NondetIntRange("key", 0, 1)]}
	case 5:
		cmd, flags = genCmdAttr, []string{"--maxDegree", "9"}
	case 6:
		cmd = infoKeyCmdList
	case 7:
		cmd, flags = infoKeyCmdConv, []string{"--key", "Gb", "--command", "rpd"}
	}
	flags = append(flags, "--output", "")
	vf.Assert("flags-parse", cmd.ParseFlags(flags) == nil)
	ref, err := verifCapture("info-ref.txt", func() error { return cmd.RunE(cmd, nil) })
	vf.Assert("command-succeeds", err == nil && ref != "")
	reps := 1
	if vf.Native() {
		reps = 25
	}
	for i := 0; i < reps; i++ {
		vf.NondetMapOrder(true)
		got, gerr := verifCapture("info-got.txt", func() error { return cmd.RunE(cmd, nil) })
		vf.NondetMapOrder(false)
		vf.Assert("output-independent-of-map-order", gerr == nil && got == ref)
	}
	vf.Reach("end")
}


// VerifC16ChordFiles: a user dictionary split over several --chord files is the same dictionary
// in whichever order the files are given: a chord may extend one that is defined in a later
// file, and resolves to the parent's notes followed by its own.
func VerifC16ChordFiles() {
	upper, base := vf.TempPath("chords-upper.yml"), vf.TempPath("chords-base.yml")
	verifReset(upper, base)
	defer verifReset(upper, base)
	os.WriteFile(upper, []byte("- name: ThirteenFlatNine\n  meta:\n    display: 13b9\n  extends: SevenFlatNine\n  attributes:\n    - Major13\n"), 0o644)
	os.WriteFile(base, []byte("- name: SevenFlatNine\n  meta:\n    display: 7b9\n  extends: DominantSeventh\n  attributes:\n    - Minor9\n"), 0o644)
	var flags []string
	switch vf.NondetIntRange("order", 0, 3) {
	case 0:
		flags = []string{"--chord", base, "--chord", upper}
	case 1:
		flags = []string{"--chord", upper, "--chord", base}
	case 2:
		flags = []string{"--chord", upper + "," + base}
	case 3:
		flags = []string{"--chord", base + "," + upper}
	}
	vf.Assert("flags-parse", infoCmdChordDescribe.ParseFlags(flags) == nil)
	m, err := newChordMap(infoCmdChordDescribe)
	vf.Assert("consistent-dictionary-is-accepted-in-any-file-order", err == nil && m != nil)
	if err != nil || m == nil {
		return
	}
	for _, key := range []string{"13b9", "ThirteenFlatNine"} {
		attrs, ok := m.GetChordAttributes(key)
		want := []string{"Perfect1", "Major3", "Perfect5", "Minor7", "Minor9", "Major13"}
		same := ok && len(attrs) == len(want)
		for i := 0; same && i < len(want); i++ {
			same = attrs[i].Name == want[i]
		}
		vf.Assert("chord-inherits-across-files", same)
	}
	vf.Reach("end")
}

// VerifC16AttrFiles: attributes supplied with --attr are part of the dictionary whichever other
// flags are given (no --chord file, one that uses them, one that does not): a fresh name is
// known, a built-in name is redefined for the built-in chords too, and a file with an unnamed
// entry or a file that does not exist is refused.
func VerifC16AttrFiles() {
	attr, bad, chd, other := vf.TempPath("attrs.yml"), vf.TempPath("attrs-bad.yml"), vf.TempPath("attrs-chord.yml"), vf.TempPath("attrs-other.yml")
	missing := vf.TempPath("attrs-missing.yml")
	verifReset(attr, bad, chd, other, missing)
	defer verifReset(attr, bad, chd, other, missing)
	os.WriteFile(attr, []byte("- name: Blue5\n  degree: \"b5\"\n- name: Major3\n  degree: \"b3\"\n"), 0o644)
	os.WriteFile(bad, []byte("- degree: \"3\"\n"), 0o644)
	os.WriteFile(chd, []byte("- name: BlueTriad\n  meta:\n    display: blue\n  attributes: [Perfect1, Major3, Blue5]\n"), 0o644)
	os.WriteFile(other, []byte("- name: Fifth\n  meta:\n    display: five\n  attributes: [Perfect1, Perfect5]\n"), 0o644)
	var flags []string
	attrC := vf.NondetIntRange("attr-file", 0, 3) // none, good, unnamed entry, missing file
	switch attrC {
	case 1:
		flags = append(flags, "--attr", attr)
	case 2:
		flags = append(flags, "--attr", bad)
	case 3:
		flags = append(flags, "--attr", missing)
	}
	chordC := vf.NondetIntRange("chord-file", 0, 2) // none, one using the attributes, an unrelated one
	if attrC != 1 && chordC == 1 {
		chordC = 2
	}
	switch chordC {
	case 1:
		flags = append(flags, "--chord", chd)
	case 2:
		flags = append(flags, "--chord", other)
	}
	vf.Assert("flags-parse", infoCmdChordDescribe.ParseFlags(flags) == nil)
	m, err := newChordMap(infoCmdChordDescribe)
	infoCmdChordDescribe.ParseFlags([]string{"--attr", "", "--chord", ""})
	if attrC >= 2 {
		vf.Assert("broken-attr-file-refused-whatever-else-is-given", err != nil)
		vf.Reach("end")
		return
	}
	vf.Assert("consistent-dictionary-accepted", err == nil && m != nil)
	if err != nil || m == nil {
		return
	}
	semis := func(name string) []int {
		as, ok := m.GetChordAttributes(name)
		if !ok {
			return nil
		}
		var r []int
		for _, a := range as {
			x, _ := a.Semitone()
			r = append(r, int(x))
		}
		return r
	}
	same := func(a, b []int) bool {
		if len(a) != len(b) {
			return false
		}
		for i := range a {
			if a[i] != b[i] {
				return false
			}
		}
		return true
	}
	b5, ok := m.GetAttribute("Blue5")
	if attrC == 1 {
		x, sok := b5.Semitone()
		vf.Assert("fresh-attribute-known", ok && sok && int(x) == 6)
		vf.Assert("redefined-attribute-holds-for-builtin-chords", same(semis("MajorTriad"), []int{0, 3, 7}) && same(semis(""), []int{0, 3, 7}) && same(semis("7"), []int{0, 3, 7, 10}))
		if chordC == 1 {
			vf.Assert("user-chord-uses-user-attributes", same(semis("blue"), []int{0, 3, 6}) && same(semis("BlueTriad"), []int{0, 3, 6}))
		}
	} else {
		vf.Assert("no-attr-file-no-fresh-attribute", !ok)
		vf.Assert("builtin-chords-as-built-in", same(semis("MajorTriad"), []int{0, 4, 7}) && same(semis("7"), []int{0, 4, 7, 10}))
	}
	if chordC == 2 {
		vf.Assert("unrelated-user-chord-known", same(semis("five"), []int{0, 7}))
	}
	vf.Reach("end")
}

// VerifC16BrokenDictWrite: `write` refuses an inconsistent dictionary whatever the piece holds
// (chords using built-in symbols only, rests only, an empty list) — the rejection belongs to the
// dictionary, not to the chords that happen to need it. Five kinds of inconsistency, stated
// outright; nothing may be reported as success.
func VerifC16BrokenDictWrite() {
	in, out, dict := vf.TempPath("brokendict-in.yml"), vf.TempPath("brokendict-out.mid"), vf.TempPath("brokendict.yml")
	verifReset(in, out, dict)
	defer verifReset(in, out, dict)
	kind := vf.NondetIntRange("inconsistency", 0, 4)
	flag := "--chord"
	switch kind {
	case 0:
		os.WriteFile(dict, []byte("- name: Broken\n  meta:\n    display: brk\n  attributes:\n    - NoSuchAttribute\n"), 0o644)
	case 1:
		os.WriteFile(dict, []byte("- name: Broken\n  meta:\n    display: brk\n  extends: NoSuchChord\n"), 0o644)
	case 2:
		os.WriteFile(dict, []byte("- name: A\n  meta:\n    display: a1\n  extends: B\n- name: B\n  meta:\n    display: b1\n  extends: A\n"), 0o644)
	case 3:
		os.WriteFile(dict, []byte("- meta:\n    display: anon\n  attributes:\n    - Perfect1\n"), 0o644)
	case 4:
		flag = "--attr"
		os.WriteFile(dict, []byte("- degree: \"3\"\n"), 0o644)
	}
	switch vf.NondetIntRange("piece", 0, 2) {
	case 0:
		os.WriteFile(in, []byte(verifDoc("m7")), 0o644)
	case 1:
		os.WriteFile(in, []byte("- values:\n    - \"1\"\n- values:\n    - \"1/2\"\n  bpm: 90\n"), 0o644)
	case 2:
		os.WriteFile(in, []byte("[]\n"), 0o644)
	}
	vf.Assert("flags-parse", writeCmd.ParseFlags([]string{"--output", out, flag, dict}) == nil)
	_, err := verifCapture("brokendict-stdout.bin", func() error { return writeCmd.RunE(writeCmd, []string{in}) })
	writeCmd.ParseFlags([]string{"--output", "", "--attr", "", "--chord", ""})
	vf.Assert("inconsistent-dictionary-refused-whatever-the-piece", err != nil)
	vf.Reach("end")
}

var verifLetterNames = [7]string{"C", "D", "E", "F", "G", "A", "B"}

func verifNoteText(letter, acc int) string {
	return verifLetterNames[letter] + map[int]string{-1: "b", 0: "", 1: "#"}[acc]
}

// verifYAMLValues returns, in order, the values of every `name: value` line of a YAML text
// (quotes stripped).
func verifYAMLValues(text, name string) []string {
	var out []string
	for _, line := range strings.Split(text, "\n") {
		t := strings.TrimLeft(line, " -")
		if strings.HasPrefix(t, name+": ") {
			out = append(out, strings.Trim(strings.TrimPrefix(t, name+": "), "'\""))
		}
	}
	return out
}

// VerifC03KeyFlag: `text conv syllable --key K` through the real command, for each of the 28
// supported keys: the seven notes of K's own scale come out as the scale's own degrees
// (1 2 3 4 5 6 7, or 1 2 b3 4 5 b6 b7 in a minor key) — the key given on the command line is
// the key that is used, spelled as given.
func VerifC03KeyFlag() {
	_, l, a, minor := crdx.SupportedKey("k")
	sig := spec.Signature(l, a, minor)
	text := ""
	for i := 0; i < 7; i++ {
		text += verifNoteText((l+i)%7, spec.AccidentalInKey((l+i)%7, sig)) + "[1] "
	}
	in := vf.TempPath("keyflag-in.txt")
	verifReset(in)
	defer verifReset(in)
	os.WriteFile(in, []byte(text), 0o644)
	keyText := verifNoteText(l, a) + map[bool]string{true: "m", false: ""}[minor]
	vf.Assert("flags-parse", textCmdConvSyllable.ParseFlags([]string{"--output", "", "--key", keyText}) == nil)
	out, err := verifCapture("keyflag-out.txt", func() error { return textCmdConvSyllable.RunE(textCmdConvSyllable, []string{in}) })
	vf.Assert("scale-notes-always-accepted", err == nil && out != "")
	got := verifYAMLValues(out, "degree")
	want := []string{"1", "2", "3", "4", "5", "6", "7"}
	if minor {
		want = []string{"1", "2", "b3", "4", "5", "b6", "b7"}
	}
	same := len(got) == len(want)
	for i := 0; same && i < len(want); i++ {
		same = got[i] == want[i]
	}
	vf.Assert("scale-note-maps-to-the-scales-own-degree", same)
	vf.Reach("end")
}

// VerifC14ConvCmd: `info key conv --key K -c CHAIN` through the real command: the keys printed
// are exactly the supported spellings of the key the chain leads to — also for chains that
// cancel out (ds, pp, rr, dpps: every spelling of the start key).
func VerifC14ConvCmd() {
	_, l, a, minor := crdx.SupportedKey("k")
	chain := []string{"d", "s", "r", "p", "ds", "sd", "pp", "rr", "dpps", "prrp", "rp", "ddd", "pd", "dddddddddddd"}[vf.NondetIntRange("chain", 0, 13)]
	pc, m := spec.PitchClass(l, a), minor
	for _, c := range chain {
		pc, m = spec.Move(pc, m, map[rune]int{'d': spec.MoveDominant, 's': spec.MoveSubDominant, 'r': spec.MoveRelative, 'p': spec.MoveParallel}[c])
	}
	keyText := verifNoteText(l, a) + map[bool]string{true: "m", false: ""}[minor]
	vf.Assert("flags-parse", infoKeyCmdConv.ParseFlags([]string{"--output", "", "--key", keyText, "--command", chain}) == nil)
	out, err := verifCapture("conv-out.txt", func() error { return infoKeyCmdConv.RunE(infoKeyCmdConv, nil) })
	vf.Assert("chain-succeeds", err == nil && out != "")
	// every supported spelling of (pc, m), and nothing else
	want := map[string]bool{}
	for tl := 0; tl < 7; tl++ {
		for ta := -1; ta <= 1; ta++ {
			if spec.PitchClass(tl, ta) == pc && spec.IsListedKey(tl, ta, m) {
				want[verifNoteText(tl, ta)+map[bool]string{true: "m", false: ""}[m]] = true
			}
		}
	}
	got := map[string]bool{}
	for _, line := range strings.Split(out, "\n") {
		if t := strings.Trim(strings.TrimLeft(line, " -"), "'\""); t != "" {
			got[t] = true
		}
	}
	same := len(got) == len(want)
	for k := range want {
		same = same && got[k]
	}
	vf.Assert("result-lists-exactly-the-spellings-of-the-target", same)
	vf.Reach("end")
}

// VerifC09KeyConvCommand: `info key conv -c TEXT` for any text of up to three characters over
// the four conversion letters, an unknown letter, multi-byte characters of two, three and four
// bytes, and a byte that is no UTF-8 at all: never a panic; a text made of conversion letters
// only succeeds, anything else is refused with nothing printed.
func VerifC09KeyConvCommand() {
	alphabet := []string{"p", "s", "d", "r", "x", "é", "♯", "\U0001F3B5", "\xff"}
	n := vf.NondetIntRange("length", 1, vf.Param("C09.convLetters", 3))
	text, known := "", true
	for i := 0; i < n; i++ {
		c := vf.NondetIntRange("char", 0, len(alphabet)-1)
		text += alphabet[c]
		known = known && c < 4
	}
	key := []string{"C", "F#m", "Gb"}[vf.NondetIntRange("key", 0, 2)]
	vf.Assert("flags-parse", infoKeyCmdConv.ParseFlags([]string{"--output", "", "--key", key, "--command", text}) == nil)
	out, err := verifCapture("convcmd-out.txt", func() error { return infoKeyCmdConv.RunE(infoKeyCmdConv, nil) })
	if known {
		vf.Assert("known-letters-succeed", err == nil && out != "")
	} else {
		vf.Assert("unknown-letter-refused-nothing-printed", err != nil && out == "")
	}
	vf.Reach("end")
}

// VerifC04HugeText: a sentence of any length is read to its end. Two chords with C04.hugeKiB
// KiB of blank lines, blanks and comment lines between them (more than any buffer or size
// limit of a plausible reader: 64 KiB, 1 MiB) parse to two chords; the same text with a stray
// closing bracket at the very end is refused; so is one cut inside the last chord.
func VerifC04HugeText() {
	kib := vf.Param("C04.hugeKiB", 1100)
	vf.Unwind(2000 * 1024 * kib / 1000 * 1000)
	filler := []string{"\n", " ", "; a comment line\n"}[vf.NondetIntRange("filler", 0, vf.Param("C04.hugeFillers", 3)-1)]
	tail := []string{"D_m/F[1/2]{k=v}", "D_m/F[1/2] ]", "D_m/F[1/"}[vf.NondetIntRange("tail", 0, 2)]
	text := "C[1]\n" + strings.Repeat(filler, kib*1024/len(filler)) + tail
	list, err := parseText(strings.NewReader(text))
	if tail == "D_m/F[1/2]{k=v}" {
		vf.Assert("whole-long-sentence-parsed", err == nil && list != nil && len(list.List) == 2)
	} else {
		vf.Assert("malformed-end-of-a-long-text-refused", err != nil)
	}
	vf.Reach("end")
}

// VerifC09CommentRun: the stack a parse needs does not grow with the text. A run of comment
// lines (C09.commentLines of them) in front of a chord is parsed within a call depth of 100
// frames — a depth that grows with the number of lines is a fatal stack overflow once the
// text is long enough (natively the replay gives the goroutine a 512 KiB stack and 20000
// lines: overflow if and only if every line costs a frame).
func VerifC09CommentRun() {
	lines := vf.Param("C09.commentLines", 300)
	if vf.Native() {
		debug.SetMaxStack(512 << 10)
		lines = 20000
	}
	where := vf.NondetIntRange("comments-are", 0, 2)
	text := strings.Repeat("; c\n", lines) + "C[1]"
	switch where {
	case 1: // between `_` and the symbol
		text = "C_" + strings.Repeat("; c\n", lines) + "m7[1]"
	case 2: // after the last chord
		text = "C[1]\n" + strings.Repeat(";\n", lines)
	}
	vf.Unwind(100 * lines)
	vf.MustTerminate()
	vf.MaxDepth(100)
	list, err := parseText(strings.NewReader(text))
	vf.MaxDepth(10000)
	vf.Assert("comment-run-parses", err == nil && list != nil && len(list.List) == 1)
	vf.Reach("end")
}

// VerifC11LongUnicode: a long text (beyond the input buffer size) written with ♯ gives the
// same bytes as the same text written with #, wherever the signs happen to fall: the pad in
// front shifts them through every position relative to the 4096-byte read boundary.
func VerifC11LongUnicode() {
	n := vf.Param("C11.longChords", 600)
	vf.Unwind(400 * n)
	pad := strings.Repeat(" ", vf.NondetIntRange("pad", 0, 7))
	build := func(sharp string) string {
		var sb strings.Builder
		sb.WriteString(pad)
		for i := 0; i < n; i++ {
			sb.WriteString("C" + sharp + "[1]\n")
		}
		return sb.String()
	}
	in := vf.TempPath("longuni-in.txt")
	verifReset(in)
	defer verifReset(in)
	vf.Assert("flags-parse", textCmdConvSyllable.ParseFlags([]string{"--output", "", "--key", "C"}) == nil)
	run := func(text string) (string, error) {
		os.WriteFile(in, []byte(text), 0o644)
		return verifCapture("longuni-out.txt", func() error { return textCmdConvSyllable.RunE(textCmdConvSyllable, []string{in}) })
	}
	ascii, aerr := run(build("#"))
	uni, uerr := run(build("♯"))
	vf.Assert("ascii-spelling-converts", aerr == nil && ascii != "")
	vf.Assert("unicode-sign-same-outcome", (uerr == nil) == (aerr == nil))
	vf.Assert("unicode-sign-same-bytes-at-every-offset", uni == ascii)
	vf.Reach("end")
}

// VerifC04RestOnly: sentences of the grammar through the real commands: a piece made of rests
// only (accepted by `text parse` and both `text conv` commands, one instance per rest, no
// chord), and note-name pieces whose first bytes look like something else to a careless
// reader (BM…, GIF8…, a vertical tab as white space): accepted by `text parse` and
// `text conv syllable` like any other sentence.
func VerifC04RestOnly() {
	texts := []string{"R[1]", "R[1,1/2] R[2]{txt=hi}\n", " R[3/4] ; only a rest\n", "B_M7[1] E[1]", "BM7[1] E[1]\n", "GIF87a[1]", "C[1]\vD[1]", "%PDF[1]"}
	ti := vf.NondetIntRange("text", 0, len(texts)-1)
	text := texts[ti]
	rests := []int{1, 2, 1, 0, 0, 0, 0, 0}[ti]
	cmd := []*cobra.Command{textCmdParse, textCmdConvSyllable, textCmdConvDegree}[vf.NondetIntRange("command", 0, 2)]
	if ti == 7 {
		// not a sentence (no such token): refused by every command
		cmd = textCmdParse
	}
	if rests == 0 && cmd == textCmdConvDegree {
		cmd = textCmdConvSyllable // note names are not degree notation
	}
	in := vf.TempPath("restonly-in.txt")
	verifReset(in)
	defer verifReset(in)
	os.WriteFile(in, []byte(text), 0o644)
	vf.Assert("flags-parse", cmd.ParseFlags([]string{"--output", ""}) == nil)
	out, err := verifCapture("restonly-out.txt", func() error { return cmd.RunE(cmd, []string{in}) })
	if ti == 7 {
		vf.Assert("a-non-sentence-is-refused", err != nil && out == "")
		vf.Reach("end")
		return
	}
	vf.Assert("a-sentence-of-rests-is-accepted", err == nil && out != "")
	if err == nil && cmd != textCmdParse && rests > 0 {
		vf.Assert("one-instance-per-rest-and-no-chord", len(verifYAMLValues(out, "values")) == 0 && strings.Count(out, "values:") == rests && !strings.Contains(out, "chord:"))
	}
	vf.Reach("end")
}

// VerifC12EmptyInputPaths: a command that succeeds on empty input (`write parse` prints an
// empty list) gives the same bytes and the same outcome whether the empty input is an empty
// FILE, `-`, or bare standard input — also when standard input is /dev/null, as under cron,
// a service manager or a CI step.
func VerifC12EmptyInputPaths() {
	empty := vf.TempPath("empty-in.yml")
	verifReset(empty)
	defer verifReset(empty)
	os.WriteFile(empty, nil, 0o644)
	cmd := []*cobra.Command{writeCmdParse, writeCmdConv}[vf.NondetIntRange("command", 0, 1)]
	flags := []string{"--output", ""}
	if cmd == writeCmdConv {
		flags = append(flags, "--command", "cmt")
	}
	vf.Assert("flags-parse", cmd.ParseFlags(flags) == nil)
	run := func(args []string, stdin string) (string, error) {
		old := os.Stdin
		if stdin != "" {
			f, err := os.Open(stdin)
			if err != nil {
				return "", err
			}
			os.Stdin = f
			defer func() { os.Stdin = old; f.Close() }()
		}
		return verifCapture("empty-out.txt", func() error { return cmd.RunE(cmd, args) })
	}
	ref, rerr := run([]string{empty}, "")
	vf.Assert("empty-document-outcome", rerr == nil && ref != "")
	way := vf.NondetIntRange("way", 0, 3)
	var got string
	var gerr error
	switch way {
	case 0:
		got, gerr = run(nil, empty) // bare stdin, a regular empty file
	case 1:
		got, gerr = run([]string{"-"}, empty)
	case 2:
		got, gerr = run(nil, "/dev/null") // bare stdin, the null device
	case 3:
		got, gerr = run([]string{"-"}, "/dev/null")
	}
	vf.Assert("same-outcome-on-every-input-path", (gerr == nil) == (rerr == nil))
	vf.Assert("same-bytes-on-every-input-path", got == ref)
	vf.Reach("end")
}

// VerifC15DescribeCmd: `info attr describe -t A -r ROOT [-s]` through the real command for
// all 21 roots: the root is echoed as given and the applied note is root + interval, spelled
// natural when possible and otherwise with the requested accidental.
func VerifC15DescribeCmd() {
	l := vf.NondetIntRange("root.letter", 0, 6)
	a := vf.NondetIntRange("root.acc", -1, 1)
	sharp := vf.NondetIntRange("sharp", 0, 1) == 1
	attr := []struct {
		name string
		size int
	}{{"Major3", 4}, {"Perfect5", 7}, {"Minor7", 10}, {"Augmented11", 18}}[vf.NondetIntRange("attr", 0, 3)]
	root := verifNoteText(l, a)
	flags := []string{"--output", "", "--target", attr.name, "--root", root}
	if sharp {
		flags = append(flags, "--precedeSharp")
	} else {
		flags = append(flags, "--precedeSharp=false")
	}
	vf.Assert("flags-parse", infoCmdAttrDescribe.ParseFlags(flags) == nil)
	out, err := verifCapture("attrdesc-out.txt", func() error { return infoCmdAttrDescribe.RunE(infoCmdAttrDescribe, nil) })
	vf.Assert("every-root-is-described", err == nil && out != "")
	if err != nil {
		return
	}
	nat := [7]int{0, 2, 4, 5, 7, 9, 11}
	pc := ((nat[l]+a+attr.size)%12 + 12) % 12
	names := map[int]string{0: "C", 2: "D", 4: "E", 5: "F", 7: "G", 9: "A", 11: "B"}
	want, white := names[pc]
	if !white {
		if sharp {
			want = names[pc-1] + "#"
		} else {
			want = names[(pc+1)%12] + "b"
		}
	}
	roots, applied := verifYAMLValues(out, "root"), verifYAMLValues(out, "applied")
	vf.Assert("root-echoed", len(roots) == 1 && roots[0] == root)
	vf.Assert("applied-note-is-root-plus-interval-as-spelled", len(applied) == 1 && applied[0] == want)
	vf.Reach("end")
}
