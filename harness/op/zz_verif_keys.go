package op

import (
	"github.com/berquerant/crd/note"
	vf "github.com/berquerant/crd/zz_verif"
	"github.com/berquerant/crd/zz_verif/spec"
)

func verifName(letter int) note.Name {
	switch letter {
	case 0:
		return note.C
	case 1:
		return note.D
	case 2:
		return note.E
	case 3:
		return note.F
	case 4:
		return note.G
	case 5:
		return note.A
	case 6:
		return note.B
	}
	return note.UnknownName
}

func verifLetter(n note.Name) int {
	switch n {
	case note.C:
		return 0
	case note.D:
		return 1
	case note.E:
		return 2
	case note.F:
		return 3
	case note.G:
		return 4
	case note.A:
		return 5
	case note.B:
		return 6
	}
	return -1
}

func verifAcc(acc int) Accidental {
	switch acc {
	case 0:
		return Natural
	case 1:
		return Sharp
	case -1:
		return Flat
	}
	return UnknownAccidental
}

func verifAccNum(a Accidental) int {
	switch a {
	case Natural:
		return 0
	case Sharp:
		return 1
	case Flat:
		return -1
	}
	return 99
}

// verifKey makes an arbitrary key spelling [A-G][#b]?m? from three nondeterministic inputs.
func verifKey(prefix string) (Key, int, int, bool) {
	letter := vf.NondetIntRange(prefix+"letter", 0, 6)
	acc := vf.NondetIntRange(prefix+"acc", -1, 1)
	minor := vf.NondetBool(prefix + "minor")
	return Key{Name: verifName(letter), Accidental: verifAcc(acc), Minor: minor}, letter, acc, minor
}

// VerifC13Scale: every supported key has the right notes, steps and signature; the 28
// listed keys are supported; other spellings are rejected cleanly.
func VerifC13Scale() {
	key, letter, acc, minor := verifKey("")
	s, err := NewScale(key)
	sig := spec.Signature(letter, acc, minor)
	if spec.IsListedKey(letter, acc, minor) {
		vf.Assert("listed-key-supported", err == nil)
	}
	if err != nil {
		vf.Assert("rejected-key-has-no-scale-value", s == nil)
		vf.Reach("rejected")
		return
	}
	vf.Reach("supported")
	vf.Assert("supported-key-is-a-legal-key", spec.HasScale(letter, acc, minor))
	vf.Assert("scale-reports-its-key", s.Key == key)
	vf.Assert("sharp-count", s.Sharp == vf.Ite(sig > 0, sig, 0))
	vf.Assert("flat-count", s.Flat == vf.Ite(sig < 0, -sig, 0))
	for i := 0; i < 7; i++ {
		n := s.Notes[i]
		vf.Assert("note-present", n != nil)
		l := verifLetter(n.Name)
		vf.Assert("letters-in-order-from-tonic", l == (letter+i)%7)
		vf.Assert("altered-notes-are-first-n-of-order", verifAccNum(n.Accidental) == spec.AccidentalInKey((letter+i)%7, sig))
		nx := s.Notes[(i+1)%7]
		step := (int(nx.Semitone()) - int(n.Semitone()) + 24) % 12
		vf.Assert("step-pattern", step == spec.Step(minor, i))
	}
	vf.Assert("tonic-accidental", verifAccNum(s.Notes[0].Accidental) == acc)
	// relative pair shares notes and signature
	var rel Key
	if minor {
		rel = Key{Name: s.Notes[2].Name, Accidental: s.Notes[2].Accidental}
	} else {
		rel = Key{Name: s.Notes[5].Name, Accidental: s.Notes[5].Accidental, Minor: true}
	}
	if rs, rerr := NewScale(rel); rerr == nil {
		vf.Reach("relative-supported")
		vf.Assert("relative-same-signature", rs.Sharp == s.Sharp && rs.Flat == s.Flat)
		off := vf.Ite(minor, 2, 5)
		for i := 0; i < 7; i++ {
			a, b := rs.Notes[i], s.Notes[(i+off)%7]
			vf.Assert("relative-same-notes", a.Name == b.Name && a.Accidental == b.Accidental)
		}
	}
	vf.Reach("end")
}

// VerifC13ParseKey: ParseKey on arbitrary short strings never panics and whatever it
// accepts is either supported with the right scale (checked above) or rejected by NewScale.
func VerifC13ParseKey() {
	n := vf.NondetIntRange("len", 0, vf.Param("C13.maxLen", 3))
	s := vf.NondetString("s", n)
	k, err := ParseKey(s)
	if err != nil {
		vf.Reach("parse-error")
		return
	}
	vf.Reach("parsed")
	verifAcceptedKeyIsWhatWasWritten(s, k)
	sc, serr := NewScale(k)
	if serr != nil {
		vf.Assert("no-scale-on-error", sc == nil)
		vf.Reach("no-scale")
		return
	}
	l := verifLetter(k.Name)
	vf.Assert("parsed-key-has-a-letter", l >= 0)
	vf.Assert("parsed-supported-key-is-legal", spec.HasScale(l, verifAccNum(k.Accidental), k.Minor))
	vf.Reach("end")
}

// verifKeySpelling reads s as a key spelling in the documented form, the whole text and nothing
// else: one letter A..G, an optional # or b, an optional m. Letters are numbered C=0 .. B=6.
func verifKeySpelling(s string) (letter, acc int, minor, ok bool) {
	if len(s) == 0 || s[0] < 'A' || s[0] > 'G' {
		return 0, 0, false, false
	}
	letter = (int(s[0]-'A') + 5) % 7 // A→5, B→6, C→0 …
	i := 1
	if i < len(s) && s[i] == '#' {
		acc = 1
		i++
	} else if i < len(s) && s[i] == 'b' {
		acc = -1
		i++
	}
	if i < len(s) && s[i] == 'm' {
		minor = true
		i++
	}
	return letter, acc, minor, i == len(s)
}

// verifAcceptedKeyIsWhatWasWritten: a key text that is accepted means exactly the key it
// spells; text that is not a key spelling (trailing or leading characters, other signs) is
// refused rather than read as whatever key-like fragment it contains.
func verifAcceptedKeyIsWhatWasWritten(s string, k Key) {
	l, a, m, ok := verifKeySpelling(s)
	vf.Assert("accepted-key-text-is-a-key-spelling", ok)
	if ok {
		vf.Assert("accepted-key-is-the-key-written", verifLetter(k.Name) == l && verifAccNum(k.Accidental) == a && k.Minor == m)
	}
}

// verifScaleIs: the seven notes of s are the scale of (letter, acc, minor), in order.
func verifScaleIs(s *Scale, letter, acc int, minor bool) bool {
	if s == nil {
		return false
	}
	sig := spec.Signature(letter, acc, minor)
	ok := true
	for i := 0; i < 7; i++ {
		n := s.Notes[i]
		ok = ok && n != nil && verifLetter(n.Name) == (letter+i)%7 && verifAccNum(n.Accidental) == spec.AccidentalInKey((letter+i)%7, sig)
	}
	return ok
}

// VerifC13TwoScales: a scale stays what it is when another one is built afterwards (the
// listing commands hold all 28 at once); and every entry of the listing has its own notes.
func VerifC13TwoScales() {
	k1, l1, a1, m1 := verifKey("first.")
	vf.Assume(spec.IsListedKey(l1, a1, m1))
	k2, l2, a2, m2 := verifKey("second.")
	vf.Assume(spec.IsListedKey(l2, a2, m2))
	s1, e1 := NewScale(k1)
	vf.Assert("listed-key-supported", e1 == nil && verifScaleIs(s1, l1, a1, m1))
	s2, e2 := NewScale(k2)
	vf.Assert("listed-key-supported", e2 == nil && verifScaleIs(s2, l2, a2, m2))
	vf.Assert("earlier-scale-unchanged-by-a-later-one", verifScaleIs(s1, l1, a1, m1) && s1.Key == k1)
	vf.Reach("end")
}

// VerifC13Listing: every scale of the key listing (`info key list`) carries the notes and the
// signature of its own key, all 28 held at the same time.
func VerifC13Listing() {
	all := AllScales()
	vf.Assert("listing-has-28-keys", len(all) == 28)
	for _, s := range all {
		l, a, m := verifLetter(s.Key.Name), verifAccNum(s.Key.Accidental), s.Key.Minor
		sig := spec.Signature(l, a, m)
		vf.Assert("listed-scale-has-its-own-notes", spec.IsListedKey(l, a, m) && verifScaleIs(s, l, a, m))
		vf.Assert("listed-scale-has-its-own-signature", s.Sharp == vf.Ite(sig > 0, sig, 0) && s.Flat == vf.Ite(sig < 0, -sig, 0))
	}
	vf.Reach("end")
}
