package op

import (
	vf "github.com/berquerant/crd/zz_verif"
	"gopkg.in/yaml.v3"
)

func verifScalarNode(name string, maxLen int) (*yaml.Node, string) {
	n := vf.NondetIntRange(name+".len", 0, maxLen)
	s := vf.NondetString(name, n)
	return &yaml.Node{Kind: yaml.ScalarNode, Value: s}, s
}

func verifAllDigits(s string) bool {
	for i := 0; i < len(s); i++ {
		if s[i] < '0' || s[i] > '9' {
			return false
		}
	}
	return len(s) > 0
}

func verifAllZeros(s string) bool {
	for i := 0; i < len(s); i++ {
		if s[i] != '0' {
			return false
		}
	}
	return len(s) > 0
}

// VerifC09BPMField: the YAML field `bpm` never panics and refuses tempo 0 and non-numbers.
func VerifC09BPMField() {
	node, s := verifScalarNode("s", vf.Param("C09.maxLen", 3))
	var b BPM
	err := b.UnmarshalYAML(node)
	if verifAllZeros(s) {
		vf.Class("zero")
		vf.Assert("tempo-zero-is-refused", err != nil)
		vf.Class("")
	}
	if !verifAllDigits(s) {
		vf.Assert("non-number-tempo-is-refused", err != nil)
	}
	if err == nil {
		vf.Assert("accepted-tempo-is-positive", b > 0)
		vf.Reach("accepted")
	}
	vf.Reach("end")
}

// VerifC09MeterField: `meter` never panics; zero numerator/denominator and garbage are refused.
func VerifC09MeterField() {
	node, _ := verifScalarNode("s", vf.Param("C09.maxLen", 3))
	var m Meter
	err := m.UnmarshalYAML(node)
	if err == nil {
		vf.Assert("accepted-meter-is-positive", m.Num >= 1 && m.Denom >= 1)
		vf.Reach("accepted")
	}
	vf.Reach("end")
}

// VerifC09DynamicField: `velocity` accepts exactly pp p mp mf f ff.
func VerifC09DynamicField() {
	node, s := verifScalarNode("s", vf.Param("C09.maxLen", 3))
	var d DynamicSign
	err := d.UnmarshalYAML(node)
	known := s == "pp" || s == "p" || s == "mp" || s == "mf" || s == "f" || s == "ff"
	vf.Assert("dynamic-accepted-iff-known", (err == nil) == known)
	if err == nil {
		vf.Assert("accepted-dynamic-has-a-velocity", d.Velocity() >= 1 && d.Velocity() <= 127)
		vf.Reach("accepted")
	}
	vf.Reach("end")
}

// VerifC09KeyField: `key` never panics; an accepted key either has a scale or is refused
// by the scale constructor with an error (never a panic, never a partial scale).
func VerifC09KeyField() {
	node, s := verifScalarNode("s", vf.Param("C09.maxLen", 3))
	var k Key
	err := k.UnmarshalYAML(node)
	if err == nil {
		// a key crd has no notion of is refused, never read as some key-like fragment of it
		verifAcceptedKeyIsWhatWasWritten(s, k)
		sc, serr := NewScale(k)
		vf.Assert("scale-or-error", (sc == nil) == (serr != nil))
		vf.Reach("accepted")
	}
	vf.Reach("end")
}
