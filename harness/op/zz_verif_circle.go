package op

import (
	vf "github.com/berquerant/crd/zz_verif"
	"github.com/berquerant/crd/zz_verif/spec"
)

var verifCircle = NewCircleOfFifth()

func verifConversion(m int) KeyConversion {
	switch m {
	case spec.MoveParallel:
		return ParallelKey
	case spec.MoveRelative:
		return RelativeKey
	case spec.MoveDominant:
		return DominantKey
	case spec.MoveSubDominant:
		return SubDominantKey
	}
	return UnknownKeyConversion
}

// verifMemberIs asserts that member m lists exactly the supported spellings of class (pc, minor).
func verifMemberIs(label string, m CircleMember, pc int, minor bool) {
	n := 0
	for l := 0; l < 7; l++ {
		for a := -1; a <= 1; a++ {
			k := Key{Name: verifName(l), Accidental: verifAcc(a), Minor: minor}
			_, serr := NewScale(k)
			want := serr == nil && spec.PitchClass(l, a) == pc
			_, got := m.Get(k)
			vf.Assert(label+":lists-exactly-the-spellings-of-target", got == want)
			if got {
				n++
			}
			// nothing of the other mode
			ko := Key{Name: verifName(l), Accidental: verifAcc(a), Minor: !minor}
			_, goto_ := m.Get(ko)
			vf.Assert(label+":no-key-of-other-mode", !goto_)
		}
	}
	vf.Assert(label+":non-empty", n >= 1)
	vf.Assert(label+":size", m.Keys().Len() == n)
}

// VerifC14Step: one conversion from every supported key.
func VerifC14Step() {
	key, letter, acc, minor := verifKey("")
	_, err := NewScale(key)
	vf.Assume(err == nil)
	mv := vf.NondetIntRange("move", 1, 4)
	m, cerr := verifConversion(mv).Converter(verifCircle)(key)
	vf.Assert("conversion-of-supported-key-succeeds", cerr == nil)
	if cerr != nil {
		return
	}
	pc, mode := spec.Move(spec.PitchClass(letter, acc), minor, mv)
	verifMemberIs("step", m, pc, mode)
	if mv == spec.MoveRelative {
		// relative keeps the signature
		for k := range m.Keys().All() {
			sc, _ := m.Get(k)
			sig := spec.Signature(verifLetter(k.Name), verifAccNum(k.Accidental), k.Minor)
			src := spec.Signature(letter, acc, minor)
			vf.Assert("relative-keeps-signature-up-to-enharmonic", (sig-src+24)%12 == 0)
			vf.Assert("member-scale-matches-key", sc != nil && sc.Key == k)
		}
	}
	vf.Reach("end")
}

// VerifC14RingAt: Ring.At wraps every int index into range (no panic), matching floored modulo.
func VerifC14RingAt() {
	i := vf.NondetInt("i")
	idx, ok := verifCircle.Majors.Index(verifCircle.Majors.At(i).Head().Key)
	vf.Assert("at-returns-a-ring-member", ok)
	n := 12
	want := ((i % n) + n) % n
	vf.Assert("at-is-floored-modulo", idx == want)
	vf.Reach("end")
}

// VerifC14Chain: chains of bounded length from every supported key, under every map
// iteration order, equal the composition of their steps and never fail.
func VerifC14Chain() {
	key, letter, acc, minor := verifKey("")
	_, err := NewScale(key)
	vf.Assume(err == nil)
	maxLen := vf.Param("C14.maxLen", 3)
	n := vf.NondetIntRange("len", 1, maxLen) // the CLI refuses an empty chain
	chain := make(KeyConversionChain, n)
	pc, mode := spec.PitchClass(letter, acc), minor
	for i := 0; i < n; i++ {
		mv := vf.NondetIntRange("move", 1, 4)
		chain[i] = verifConversion(mv)
		pc, mode = spec.Move(pc, mode, mv)
	}
	vf.NondetMapOrder(true)
	m, cerr := chain.Convert(verifCircle, key)
	vf.NondetMapOrder(false)
	vf.Assert("chain-succeeds", cerr == nil)
	if cerr != nil {
		return
	}
	verifMemberIs("chain", m, pc, mode)
	vf.Reach("end")
}

// VerifC14Laws: d∘s = s∘d = id, r∘r = id, p∘p = id, d^12 = id as statements about Convert.
func VerifC14Laws() {
	key, letter, acc, minor := verifKey("")
	_, err := NewScale(key)
	vf.Assume(err == nil)
	law := vf.NondetIntRange("law", 0, 5)
	var chain KeyConversionChain
	switch law {
	case 0:
		chain = KeyConversionChain{DominantKey, SubDominantKey}
	case 1:
		chain = KeyConversionChain{SubDominantKey, DominantKey}
	case 2:
		chain = KeyConversionChain{RelativeKey, RelativeKey}
	case 3:
		chain = KeyConversionChain{ParallelKey, ParallelKey}
	case 4:
		for i := 0; i < 12; i++ {
			chain = append(chain, DominantKey)
		}
	case 5:
		for i := 0; i < 12; i++ {
			chain = append(chain, SubDominantKey)
		}
	}
	vf.NondetMapOrder(true)
	m, cerr := chain.Convert(verifCircle, key)
	vf.NondetMapOrder(false)
	vf.Assert("law-chain-succeeds", cerr == nil)
	if cerr != nil {
		return
	}
	_, back := m.Get(key)
	vf.Assert("law-returns-to-start", back)
	verifMemberIs("law", m, spec.PitchClass(letter, acc), minor)
	vf.Reach("end")
}
