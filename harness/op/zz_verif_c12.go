package op

import (
	vf "github.com/berquerant/crd/zz_verif"
)

func verifScaleKeys(ss []*Scale) []string {
	out := make([]string, len(ss))
	for i, s := range ss {
		if s != nil {
			out[i] = s.Key.String()
		}
	}
	return out
}

func verifSameStrings(a, b []string) bool {
	if len(a) != len(b) {
		return false
	}
	for i := range a {
		if a[i] != b[i] {
			return false
		}
	}
	return true
}

// VerifC12AllScalesOrder: the list behind `info key list` does not depend on Go's map
// iteration order (natively: 40 repetitions must agree).
func VerifC12AllScalesOrder() {
	ref := verifScaleKeys(AllScales())
	reps := 1
	if vf.Native() {
		reps = 40
	}
	for i := 0; i < reps; i++ {
		vf.NondetMapOrder(true)
		got := verifScaleKeys(AllScales())
		vf.NondetMapOrder(false)
		vf.Assert("key-listing-independent-of-map-order", verifSameStrings(ref, got))
	}
	vf.Reach("end")
}
