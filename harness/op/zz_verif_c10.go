package op

import (
	"github.com/berquerant/crd/util"
	vf "github.com/berquerant/crd/zz_verif"
	"gopkg.in/yaml.v3"
)

// VerifC10KeyCodec: every key spelling prints and parses back unchanged.
func VerifC10KeyCodec() {
	key, _, _, _ := verifKey("")
	back, err := ParseKey(key.String())
	vf.Assert("key-reads-back", err == nil && back == key)
	b, merr := yaml.Marshal(key)
	var y Key
	uerr := yaml.Unmarshal(b, &y)
	vf.Assert("key-yaml-round-trip", merr == nil && uerr == nil && y == key)
	vf.Reach("end")
}

// VerifC10ScalarCodecs: meter, tempo and dynamics survive YAML printing and re-reading.
func VerifC10ScalarCodecs() {
	num, den := vf.NondetUint("num"), vf.NondetUint("den")
	mx := uint(vf.Param("C10.maxNumber", 999))
	vf.Assume(num >= 1)
	vf.Assume(num <= mx)
	vf.Assume(den >= 1)
	vf.Assume(den <= mx)
	m := Meter{Rat: util.NewRat(num, den)}
	b, merr := yaml.Marshal(m)
	var m2 Meter
	uerr := yaml.Unmarshal(b, &m2)
	// a meter a MIDI file can state (numerator in a byte, denominator a power of two up to 128)
	// survives printing and re-reading; any other is refused when read, never read as another
	pow2 := false
	for _, d := range []uint{1, 2, 4, 8, 16, 32, 64, 128} {
		pow2 = vf.Ite(den == d, true, pow2)
	}
	statable := vf.Ite(num <= 255, pow2, false)
	if statable {
		vf.Assert("meter-yaml-round-trip", merr == nil && uerr == nil && m2 == m)
	} else {
		vf.Assert("unstatable-meter-is-refused", merr == nil && uerr != nil)
	}

	bpm := BPM(vf.NondetUint("bpm"))
	vf.Assume(bpm >= 1)
	vf.Assume(uint(bpm) <= 99999)
	bb, berr := yaml.Marshal(bpm)
	var bpm2 BPM
	buerr := yaml.Unmarshal(bb, &bpm2)
	// likewise the tempo: 60,000,000/bpm must fit 24 bits, i.e. bpm >= 4
	if bpm >= 4 {
		vf.Assert("bpm-yaml-round-trip", berr == nil && buerr == nil && bpm2 == bpm)
	} else {
		vf.Assert("unstatable-tempo-is-refused", berr == nil && buerr != nil)
	}

	d := DynamicSign(vf.NondetIntRange("dyn", 1, 6))
	db, derr := yaml.Marshal(d)
	var d2 DynamicSign
	duerr := yaml.Unmarshal(db, &d2)
	vf.Assert("dynamic-yaml-round-trip", derr == nil && duerr == nil && d2 == d)
	vf.Reach("end")
}
