package astconv

import (
	"fmt"

	"github.com/berquerant/crd/input"
	"github.com/berquerant/crd/input/ast"
	"github.com/berquerant/crd/op"
	vf "github.com/berquerant/crd/zz_verif"
	"github.com/berquerant/crd/zz_verif/crdx"
	"github.com/berquerant/crd/zz_verif/spec"
)

var verifNatural = [7]int{0, 2, 4, 5, 7, 9, 11}

// verifNumberNode builds the AST of a degree number with optional # / b.
func verifNumberNode(n, acc int) *ast.ChordDegree {
	d := &ast.ChordDegree{Degree: verifTok(ast.NUMBER, fmt.Sprint(n))}
	switch acc {
	case 1:
		d.Accidental = verifTok(ast.SHARP, "#")
	case -1:
		d.Accidental = verifTok(ast.FLAT, "b")
	}
	return d
}

// verifSpell spells the note `size` semitones and `n-1` letters above (letter, acc): the
// letter is fixed by the number, the accidental by the pitch; ok=false when that needs a
// double accidental.
func verifSpell(letter, acc, n, size int) (int, int, bool) {
	l := (letter + n - 1) % 7
	target := (verifNatural[letter] + acc + size + 120) % 12
	a := (target - verifNatural[l] + 18) % 12 - 6
	return l, a, a >= -1 && a <= 1
}

func verifValues(nums ...string) *ast.ChordValues {
	v := &ast.ChordValues{}
	for _, n := range nums {
		v.Values = append(v.Values, &ast.ChordValue{Num: verifTok(ast.NUMBER, n)})
	}
	return v
}

func verifSameChord(a, b *input.Chord) bool {
	if a == nil || b == nil {
		return a == b
	}
	if a.Degree != b.Degree || a.Chord != b.Chord {
		return false
	}
	if (a.Base == nil) != (b.Base == nil) {
		return false
	}
	return a.Base == nil || *a.Base == *b.Base
}

// VerifC05RoundTrip: a chord written with degree numbers and the same chord written with
// note names in key K convert to the same instance.
func VerifC05RoundTrip() {
	key, kl, ka, _ := crdx.SupportedKey("k")
	scale, err := op.NewScale(key)
	vf.Assume(err == nil)
	n := vf.NondetIntRange("n", 1, 7)
	acc := vf.NondetIntRange("acc", -1, 1)
	hasBass := vf.NondetIntRange("hasBass", 0, 1) == 1
	sym := []string{"", "m7", "sus4"}[vf.NondetIntRange("symbol", 0, 2)]
	dc := &ast.Chord{Degree: verifNumberNode(n, acc), Values: verifValues("1", "2"),
		Meta: &ast.ChordMeta{Data: []*ast.ChordMetadata{{Key: verifTok(ast.METADATA, "bpm"), Value: verifTok(ast.METADATA, "90")}, {Key: verifTok(ast.METADATA, "txt"), Value: verifTok(ast.METADATA, "hello")}}}}
	if sym != "" {
		dc.Symbol = &ast.ChordSymbol{Symbol: verifTok(ast.SYMBOL, sym)}
	}
	bn, bacc := 1, 0
	if hasBass {
		bn = vf.NondetIntRange("bn", 1, 7)
		bacc = vf.NondetIntRange("bacc", -1, 1)
		dc.Base = &ast.ChordBase{Degree: verifNumberNode(bn, bacc)}
	}
	di, derr := NewDegreeASTConverter().Convert(dc)
	if derr != nil {
		// e.g. "b1" / "b4": the notation has no such interval
		vf.Reach("degree-text-rejected")
		return
	}
	// spell the same chord with note names in key K
	rsize, rok := spec.IntervalSize(di.Chord.Degree.Value, crdx.QualityCode(di.Chord.Degree.Name))
	vf.Assert("degree-text-gives-an-interval", rok || di.Chord.Degree.Value == 1)
	rl, ra, spellable := verifSpell(kl, ka, n, rsize)
	if !spellable {
		vf.Reach("needs-double-accidental")
		return
	}
	sc := &ast.Chord{Degree: verifDegreeNode(rl, ra), Symbol: dc.Symbol, Values: dc.Values, Meta: dc.Meta}
	if hasBass {
		bsize, _ := spec.IntervalSize(di.Chord.Base.Value, crdx.QualityCode(di.Chord.Base.Name))
		bl, ba, bspell := verifSpell(rl, ra, bn, bsize)
		if !bspell {
			vf.Reach("needs-double-accidental")
			return
		}
		sc.Base = &ast.ChordBase{Degree: verifDegreeNode(bl, ba)}
	}
	si, serr := NewSyllableASTConverter(scale).Convert(sc)
	// both the degree text and the note names (single accidentals only) are writable here, so
	// the piece must convert from either notation
	vf.Assert("chord-writable-both-ways-converts-both-ways", serr == nil)
	if serr != nil {
		vf.Reach("name-text-rejected")
		return
	}
	vf.Assert("same-chord-either-way", verifSameChord(di.Chord, si.Chord))
	vf.Assert("same-durations-either-way", len(di.Values) == len(si.Values) && len(di.Values) == 2 && di.Values[0] == si.Values[0] && di.Values[1] == si.Values[1])
	vf.Assert("same-settings-either-way", di.BPM != nil && si.BPM != nil && *di.BPM == *si.BPM && di.Key == nil && si.Key == nil)
	vf.Assert("same-texts-either-way", di.Meta != nil && si.Meta != nil && di.Meta.Get("txt") == "hello" && si.Meta.Get("txt") == "hello")
	vf.Reach("end")
}

var verifKeyNames = [7]string{"C", "D", "E", "F", "G", "A", "B"}

func verifKeyText(l, a int, minor bool) string {
	s := verifKeyNames[l]
	if a == 1 {
		s += "#"
	} else if a == -1 {
		s += "b"
	}
	if minor {
		s += "m"
	}
	return s
}

// VerifC05KeyChange: {key=K2} applies from the chord that carries it onwards; chords before
// it are read in the previous key.
func VerifC05KeyChange() {
	k1, l1, a1, _ := crdx.SupportedKey("k1.")
	scale1, err := op.NewScale(k1)
	vf.Assume(err == nil)
	k2, l2, a2, m2 := crdx.SupportedKey("k2.")
	_, err2 := op.NewScale(k2)
	vf.Assume(err2 == nil)
	carrier := vf.NondetIntRange("carrier", 0, 1) // 0: a chord carries the change, 1: a rest does
	// the same written note before and after the change
	wl := vf.NondetIntRange("note.letter", 0, 6)
	wa := vf.NondetIntRange("note.acc", -1, 1)
	conv := NewSyllableASTConverter(scale1)
	first, e1 := conv.Convert(&ast.Chord{Degree: verifDegreeNode(wl, wa), Values: verifValues("1")})
	meta := &ast.ChordMeta{Data: []*ast.ChordMetadata{{Key: verifTok(ast.METADATA, "key"), Value: verifTok(ast.METADATA, verifKeyText(l2, a2, m2))}}}
	var second *input.Instance
	var e2 error
	if carrier == 0 {
		second, e2 = conv.Convert(&ast.Chord{Degree: verifDegreeNode(wl, wa), Values: verifValues("1"), Meta: meta})
	} else {
		second, e2 = conv.Convert(&ast.Rest{Values: verifValues("1"), Meta: meta})
	}
	third, e3 := conv.Convert(&ast.Chord{Degree: verifDegreeNode(wl, wa), Values: verifValues("1")})
	if carrier == 1 {
		vf.Assert("key-change-on-a-rest-accepted", e2 == nil && second != nil)
	}
	if e2 != nil || second == nil {
		// the carrying chord's note may be inexpressible in the new key: an error, never a different degree
		vf.Reach("carrier-rejected")
		return
	}
	vf.Assert("carrier-records-the-new-key", second.Key != nil && *second.Key == k2)
	check := func(label string, inst *input.Instance, e error, kl, ka int) {
		if e != nil {
			return
		}
		size, _ := spec.IntervalSize(inst.Chord.Degree.Value, crdx.QualityCode(inst.Chord.Degree.Name))
		vf.Assert(label+"-number", int(inst.Chord.Degree.Value) == (wl-kl+7)%7+1)
		vf.Assert(label+"-size", (size%12+12)%12 == (spec.PitchClass(wl, wa)-spec.PitchClass(kl, ka)+12)%12)
	}
	check("before-change-read-in-old-key", first, e1, l1, a1)
	if carrier == 0 {
		check("carrying-chord-read-in-new-key", second, e2, l2, a2)
	}
	check("after-change-read-in-new-key", third, e3, l2, a2)
	vf.Assert("earlier-chord-carries-no-key", e1 != nil || first.Key == nil)
	vf.Reach("end")
}

// VerifC05Classifier: notation mixing letters and numbers, unknown heads and empty pieces
// are refused; pure pieces are classified — under every goroutine schedule.
func VerifC05Classifier() {
	n := vf.NondetIntRange("chords", 0, vf.Param("C05.maxChords", 2))
	heads := []string{"C", "4", "x"}
	list := &ast.ChordList{}
	syll, deg, unk := 0, 0, 0
	count := func(h int) {
		switch h {
		case 0:
			syll++
		case 1:
			deg++
		default:
			unk++
		}
	}
	for i := 0; i < n; i++ {
		if vf.NondetIntRange("rest", 0, 3) == 0 {
			list.List = append(list.List, &ast.Rest{Values: verifValues("1")})
			continue
		}
		h := vf.NondetIntRange("head", 0, 2)
		count(h)
		typ := ast.SYLLABLE
		if h == 1 {
			typ = ast.NUMBER
		}
		c := &ast.Chord{Degree: &ast.ChordDegree{Degree: verifTok(typ, heads[h])}, Values: verifValues("1")}
		if vf.NondetIntRange("hasBass", 0, 1) == 1 {
			b := vf.NondetIntRange("bassHead", 0, 2)
			count(b)
			c.Base = &ast.ChordBase{Degree: &ast.ChordDegree{Degree: verifTok(ast.SYLLABLE, heads[b])}}
		}
		list.List = append(list.List, c)
	}
	vf.PreemptionBound(vf.Param("C05.preemptions", 2))
	vf.NondetSchedule(true)
	typ, err := NewASTClassifier().Classify(list)
	vf.NondetSchedule(false)
	pure := unk == 0 && (syll == 0) != (deg == 0)
	vf.Assert("classified-iff-pure-and-non-empty", (err == nil) == pure)
	if err == nil {
		vf.Assert("classification", (typ == SyllableAST) == (syll > 0) && (typ == DegreeAST) == (deg > 0))
		vf.Reach("classified")
	} else {
		vf.Assert("no-type-on-error", typ == UnknownASTType)
		vf.Reach("refused")
	}
	vf.Reach("end")
}
