package astconv

import (
	"github.com/berquerant/crd/input/ast"
	"github.com/berquerant/crd/op"
	vf "github.com/berquerant/crd/zz_verif"
	"github.com/berquerant/crd/zz_verif/crdx"
)

// VerifC11LeadingZeros: durations written with leading zeros convert like without.
func VerifC11LeadingZeros() {
	zeros := []string{"0", "00", "000"}[vf.NondetIntRange("zeros", 0, 2)]
	nd := vf.NondetIntRange("num.len", 1, vf.Param("C11.digits", 2))
	num := vf.NondetString("num", nd)
	for i := 0; i < nd; i++ {
		vf.Assume(num[i] >= '0')
		vf.Assume(num[i] <= '9')
	}
	hasDen := vf.NondetIntRange("hasDen", 0, 1) == 1
	den := "1"
	if hasDen {
		dd := vf.NondetIntRange("den.len", 1, 2)
		den = vf.NondetString("den", dd)
		for i := 0; i < dd; i++ {
			vf.Assume(den[i] >= '0')
			vf.Assume(den[i] <= '9')
		}
	}
	mk := func(n, d string) *ast.ChordValue {
		v := &ast.ChordValue{Num: verifTok(ast.NUMBER, n)}
		if hasDen {
			v.Denom = verifTok(ast.NUMBER, d)
		}
		return v
	}
	var c ValuesConverterImpl
	plain, perr := c.convertValue(mk(num, den))
	padded, zerr := c.convertValue(mk(zeros+num, zeros+den))
	vf.Assert("leading-zeros-same-outcome", (perr == nil) == (zerr == nil))
	if perr == nil && zerr == nil {
		vf.Assert("leading-zeros-same-duration", plain == padded)
		vf.Reach("converted")
	}
	vf.Reach("end")
}

// VerifC11Accidental: whatever rune the lexer accepts as a sharp or flat sign is honoured:
// the chord converts like its ASCII spelling (# / b), or is refused — never read as another note.
func VerifC11Accidental() {
	key, _, _, _ := crdx.SupportedKey("k")
	scale, err := op.NewScale(key)
	vf.Assume(err == nil)
	r := vf.NondetRune("r")
	vf.Assume(r >= 0)
	vf.Assume(r <= 0x10FFFF)
	vf.Assume(r < 0xD800 || r > 0xDFFF)
	letter := vf.NondetIntRange("letter", 0, 6)
	syllable := vf.NondetIntRange("notation", 0, 1) == 0
	head := rune("CDEFGAB"[letter])
	if !syllable {
		head = rune("1234567"[letter])
	}
	vf.Unwind(200)
	vf.MaxDepth(60)
	tree, perr := ast.ZzParseRunes([]rune{head, r, '[', '1', ']'})
	if perr != nil || tree == nil || len(tree.List) != 1 {
		vf.Reach("not-accepted")
		return
	}
	c, ok := tree.List[0].(*ast.Chord)
	if !ok || c.Degree.Accidental == nil {
		vf.Reach("not-an-accidental")
		return
	}
	sharp, flat := ast.ZzTokenKinds()
	kind := c.Degree.Accidental.Type()
	vf.Assert("accidental-token-is-sharp-or-flat", kind == sharp || kind == flat)
	ascii := '#'
	if kind == flat {
		ascii = 'b'
	}
	if r != ascii {
		vf.Class("unicode-accidental")
	}
	ref, rerr := ast.ZzParseRunes([]rune{head, ascii, '[', '1', ']'})
	vf.Assert("ascii-spelling-parses", rerr == nil && ref != nil && len(ref.List) == 1)
	var conv *ASTConverter
	if syllable {
		conv = NewSyllableASTConverter(scale)
	} else {
		conv = NewDegreeASTConverter()
	}
	got, gerr := conv.Convert(tree.List[0])
	want, werr := conv.Convert(ref.List[0])
	if gerr == nil {
		vf.Assert("accepted-accidental-is-honoured", werr == nil && verifSameChord(got.Chord, want.Chord))
		vf.Reach("honoured")
	} else {
		vf.Reach("refused")
	}
	vf.Class("")
	vf.Reach("end")
}
