package astconv

import (
	"github.com/berquerant/crd/input/ast"
	"github.com/berquerant/crd/op"
	vf "github.com/berquerant/crd/zz_verif"
	"github.com/berquerant/crd/zz_verif/crdx"
	"github.com/berquerant/crd/zz_verif/spec"
	"github.com/berquerant/ybase"
)

var verifLetters = [7]string{"C", "D", "E", "F", "G", "A", "B"}

func verifTok(typ int, s string) ybase.Token {
	return &ast.Token{VType: typ, VValue: s, VStart: &ast.Pos{}, VEnd: &ast.Pos{}}
}

// verifDegreeNode builds the AST of a written note: letter plus optional # / b.
func verifDegreeNode(letter, acc int) *ast.ChordDegree {
	d := &ast.ChordDegree{Degree: verifTok(ast.SYLLABLE, verifLetters[letter])}
	switch acc {
	case 1:
		d.Accidental = verifTok(ast.SHARP, "#")
	case -1:
		d.Accidental = verifTok(ast.FLAT, "b")
	}
	return d
}

// VerifC03Syllable: for every supported key, root spelling and bass spelling: on success the
// degree has the letter-distance number and the pitch-distance size; scale notes always work.
func VerifC03Syllable() {
	key, kl, ka, kminor := crdx.SupportedKey("k")
	scale, err := op.NewScale(key)
	vf.Assume(err == nil)
	sig := spec.Signature(kl, ka, kminor)
	rl := vf.NondetIntRange("root.letter", 0, 6)
	ra := vf.NondetIntRange("root.acc", -1, 1)
	hasBass := vf.NondetIntRange("hasBass", 0, vf.Param("C03.bass", 1)) == 1
	c := &ast.Chord{Degree: verifDegreeNode(rl, ra)}
	bl, ba := 0, 0
	if hasBass {
		bl = vf.NondetIntRange("bass.letter", 0, 6)
		ba = vf.NondetIntRange("bass.acc", -1, 1)
		c.Base = &ast.ChordBase{Degree: verifDegreeNode(bl, ba)}
	}
	got, cerr := NewSyllableChordConverter(scale).Convert(c)

	rootInScale := spec.AccidentalInKey(rl, sig) == ra
	bassInScale := spec.AccidentalInKey(bl, sig) == ba
	if rootInScale && (!hasBass || bassInScale) {
		vf.Assert("scale-notes-always-accepted", cerr == nil)
	}
	if cerr != nil {
		vf.Assert("no-result-on-error", got == nil)
		vf.Reach("rejected")
		return
	}
	// root: from the tonic
	wantNum := (rl-kl+7)%7 + 1
	wantSize := (spec.PitchClass(rl, ra) - spec.PitchClass(kl, ka) + 12) % 12
	vf.Assert("root-number-is-letter-distance", int(got.Degree.Value) == wantNum)
	size, exists := spec.IntervalSize(got.Degree.Value, crdx.QualityCode(got.Degree.Name))
	vf.Assert("root-degree-is-an-interval", exists || (got.Degree.Value == 1 && size < 0))
	vf.Assert("root-size-is-pitch-distance", (size%12+12)%12 == wantSize)
	// what `text conv syllable` prints for this degree, read back by the reference notation reader
	pn, pq, pok := spec.ParseIntervalNotation(got.Degree.String())
	psize, _ := spec.IntervalSize(pn, pq)
	vf.Assert("printed-root-degree-is-the-written-note", pok && int(pn) == wantNum && (psize%12+12)%12 == wantSize)
	real, rok := got.Degree.Semitone()
	vf.Assert("root-degree-playable", rok && (int(real)%12+12)%12 == wantSize)
	if rootInScale {
		// the scale's own degrees: P1 M2 M3 P4 P5 M6 M7 / P1 M2 m3 P4 P5 m6 m7
		q := spec.QMajor
		if wantNum == 1 || wantNum == 4 || wantNum == 5 {
			q = spec.QPerfect
		} else if kminor && (wantNum == 3 || wantNum == 6 || wantNum == 7) {
			q = spec.QMinor
		}
		vf.Assert("scale-note-maps-to-the-scales-own-degree", crdx.QualityCode(got.Degree.Name) == q)
	}
	if !hasBass {
		vf.Assert("no-bass-when-none-written", got.Base == nil)
		vf.Reach("end")
		return
	}
	vf.Assert("bass-present-when-written", got.Base != nil)
	if got.Base == nil {
		return
	}
	bNum := (bl-rl+7)%7 + 1
	bSize := (spec.PitchClass(bl, ba) - spec.PitchClass(rl, ra) + 12) % 12
	vf.Assert("bass-number-is-letter-distance-from-root", int(got.Base.Value) == bNum)
	bs, bexists := spec.IntervalSize(got.Base.Value, crdx.QualityCode(got.Base.Name))
	vf.Assert("bass-degree-is-an-interval", bexists || (got.Base.Value == 1 && bs < 0))
	vf.Assert("bass-size-is-pitch-distance-from-root", (bs%12+12)%12 == bSize)
	bpn, bpq, bpok := spec.ParseIntervalNotation(got.Base.String())
	bpsize, _ := spec.IntervalSize(bpn, bpq)
	vf.Assert("printed-bass-degree-is-the-written-note", bpok && int(bpn) == bNum && (bpsize%12+12)%12 == bSize)
	vf.Reach("end")
	vf.Reach("end-with-bass")
}

// VerifC03History: one converter reading two chords in a row answers for the second exactly
// what a fresh converter answers for it alone — nothing remembered from an earlier chord (a
// cached look-up, a reused buffer) leaks into a later one. 28 keys x 21 x 21 written notes,
// the second with an optional bass.
func VerifC03History() {
	key, _, _, _ := crdx.SupportedKey("k")
	scale, err := op.NewScale(key)
	vf.Assume(err == nil)
	scale2, _ := op.NewScale(key)
	l1 := vf.NondetIntRange("first.letter", 0, 6)
	a1 := vf.NondetIntRange("first.acc", -1, 1)
	l2 := vf.NondetIntRange("second.letter", 0, 6)
	a2 := vf.NondetIntRange("second.acc", -1, 1)
	first := &ast.Chord{Degree: verifDegreeNode(l1, a1), Base: &ast.ChordBase{Degree: verifDegreeNode(l2, a2)}}
	second := &ast.Chord{Degree: verifDegreeNode(l2, a2), Base: &ast.ChordBase{Degree: verifDegreeNode(l1, a1)}}
	used := NewSyllableChordConverter(scale)
	used.Convert(first)
	got, gerr := used.Convert(second)
	want, werr := NewSyllableChordConverter(scale2).Convert(second)
	vf.Assert("same-outcome-whatever-was-read-before", (gerr == nil) == (werr == nil))
	if gerr != nil || werr != nil {
		vf.Reach("rejected")
		return
	}
	vf.Assert("same-degree-whatever-was-read-before", got.Degree == want.Degree)
	vf.Assert("same-bass-whatever-was-read-before", (got.Base == nil) == (want.Base == nil) && (got.Base == nil || *got.Base == *want.Base))
	vf.Reach("end")
}

// VerifC11SpellingHistory: two chords on the same letter, each with or without an accidental
// and with a symbol that may itself begin with an accidental sign (D_b5 then Db_5): the second
// converts exactly as it does on a fresh converter — however the spellings of the two chords
// may look alike when their parts are run together.
func VerifC11SpellingHistory() {
	ki := vf.NondetIntRange("key", 0, 1)
	key := op.Key{Name: crdx.Name([]int{0, 2}[ki]), Accidental: crdx.Acc([]int{0, -1}[ki])} // C, Eb
	scale, err := op.NewScale(key)
	vf.Assume(err == nil)
	scale2, _ := op.NewScale(key)
	l := vf.NondetIntRange("letter", 0, 6)
	syms := []string{"", "b5", "5", "#11", "11"}
	mk := func(name string) *ast.Chord {
		c := &ast.Chord{Degree: verifDegreeNode(l, vf.NondetIntRange(name+".acc", -1, 1))}
		if s := syms[vf.NondetIntRange(name+".symbol", 0, len(syms)-1)]; s != "" {
			c.Symbol = &ast.ChordSymbol{Symbol: verifTok(ast.SYMBOL, s)}
		}
		return c
	}
	first, second := mk("first"), mk("second")
	used := NewSyllableChordConverter(scale)
	used.Convert(first)
	got, gerr := used.Convert(second)
	want, werr := NewSyllableChordConverter(scale2).Convert(second)
	vf.Assert("same-outcome-whatever-was-read-before", (gerr == nil) == (werr == nil))
	if gerr != nil || werr != nil {
		vf.Reach("rejected")
		return
	}
	vf.Assert("same-degree-whatever-was-read-before", got.Degree == want.Degree)
	vf.Assert("same-symbol-whatever-was-read-before", got.Chord == want.Chord)
	vf.Reach("end")
}
