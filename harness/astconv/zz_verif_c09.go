package astconv

import (
	"github.com/berquerant/crd/input/ast"
	"github.com/berquerant/crd/op"
	vf "github.com/berquerant/crd/zz_verif"
)

func verifSymText(name string, max int) string {
	n := vf.NondetIntRange(name+".len", 0, max)
	return vf.NondetString(name, n)
}

func verifIsZeroNumber(s string) bool {
	if len(s) == 0 {
		return false
	}
	for i := 0; i < len(s); i++ {
		if s[i] != '0' {
			return false
		}
	}
	return true
}

func verifIsNumber(s string) bool {
	if len(s) == 0 {
		return false
	}
	for i := 0; i < len(s); i++ {
		if s[i] < '0' || s[i] > '9' {
			return false
		}
	}
	return true
}

// VerifC09ConvertNoPanic: converting an arbitrary (syntactically valid) chord or rest never
// panics, and musically meaningless parts — zero or zero-denominator durations, tempo 0 or
// not a number, an unknown dynamic, a bad meter, a key without a scale (when names must be
// read in it) — are refused with an error.
func VerifC09ConvertNoPanic() {
	syllable := vf.NondetIntRange("notation", 0, 1) == 0
	isRest := vf.NondetIntRange("rest", 0, 1) == 1
	num := verifSymText("num", vf.Param("C09.digits", 2))
	hasDen := vf.NondetIntRange("hasDen", 0, 1) == 1
	den := "1"
	val := &ast.ChordValue{Num: verifTok(ast.NUMBER, num)}
	if hasDen {
		den = verifSymText("den", vf.Param("C09.digits", 2))
		val.Denom = verifTok(ast.NUMBER, den)
	}
	values := &ast.ChordValues{Values: []*ast.ChordValue{val}}
	var meta *ast.ChordMeta
	mk := vf.NondetIntRange("meta", 0, 5)
	mkey := []string{"", "bpm", "vel", "mtr", "key", "txt"}[mk]
	mval := ""
	if mk > 0 {
		mval = verifSymText("mval", vf.Param("C09.metaLen", 2))
		meta = &ast.ChordMeta{Data: []*ast.ChordMetadata{{Key: verifTok(ast.METADATA, mkey), Value: verifTok(ast.METADATA, mval)}}}
	}
	var node ast.ChordOrRest
	if isRest {
		node = &ast.Rest{Values: values, Meta: meta}
	} else {
		head := "C"
		typ := ast.SYLLABLE
		if !syllable {
			head, typ = "4", ast.NUMBER
		}
		node = &ast.Chord{Degree: &ast.ChordDegree{Degree: verifTok(typ, head)}, Values: values, Meta: meta}
	}
	var conv *ASTConverter
	if syllable {
		scale, _ := op.NewScale(op.MustParseKey("D"))
		conv = NewSyllableASTConverter(scale)
	} else {
		conv = NewDegreeASTConverter()
	}
	inst, err := conv.Convert(node)
	if !verifIsNumber(num) || verifIsZeroNumber(num) || (hasDen && den != "" && (!verifIsNumber(den) || verifIsZeroNumber(den))) {
		vf.Class("bad-duration")
		vf.Assert("meaningless-duration-is-refused", err != nil)
	}
	if mkey == "bpm" && mval != "" && (!verifIsNumber(mval) || verifIsZeroNumber(mval)) {
		vf.Class("bad-tempo")
		vf.Assert("meaningless-tempo-is-refused", err != nil)
	}
	if mkey == "vel" && mval != "" && !(mval == "pp" || mval == "p" || mval == "mp" || mval == "mf" || mval == "f" || mval == "ff") {
		vf.Class("bad-dynamic")
		vf.Assert("unknown-dynamic-is-refused", err != nil)
	}
	vf.Class("")
	if err == nil {
		vf.Assert("instance-returned", inst != nil && len(inst.Values) == 1 && inst.Values[0].Num >= 1 && inst.Values[0].Denom >= 1)
		if inst != nil && inst.BPM != nil {
			vf.Assert("accepted-tempo-positive", *inst.BPM > 0)
		}
		if inst != nil && inst.Meter != nil {
			vf.Assert("accepted-meter-positive", inst.Meter.Num >= 1 && inst.Meter.Denom >= 1)
		}
		if inst != nil && inst.Key != nil && syllable {
			_, serr := op.NewScale(*inst.Key)
			vf.Assert("accepted-key-has-a-scale-in-note-name-mode", serr == nil)
		}
		vf.Reach("converted")
	} else {
		vf.Assert("no-instance-on-error", inst == nil)
		vf.Reach("refused")
	}
	vf.Reach("end")
}
