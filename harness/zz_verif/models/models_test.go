package models

import (
	"math/rand"
	"strconv"
	"strings"
	"testing"
	"unicode"
)

func randStr(r *rand.Rand, alphabet string, max int) string {
	n := r.Intn(max + 1)
	b := make([]byte, n)
	for i := range b {
		b[i] = alphabet[r.Intn(len(alphabet))]
	}
	return string(b)
}

func TestModelsAgainstStdlib(t *testing.T) {
	r := rand.New(rand.NewSource(1))
	const alpha = "01289#b/ =,ab\xc3\xa9\xff"
	for i := 0; i < 200000; i++ {
		s, sub := randStr(r, alpha, 6), randStr(r, alpha, 2)
		if StringsContains(s, sub) != strings.Contains(s, sub) {
			t.Fatalf("Contains(%q,%q)", s, sub)
		}
		if StringsHasPrefix(s, sub) != strings.HasPrefix(s, sub) {
			t.Fatalf("HasPrefix(%q,%q)", s, sub)
		}
		cut := randStr(r, "#b/ 0", 3)
		if StringsTrim(s, cut) != strings.Trim(s, cut) {
			t.Fatalf("Trim(%q,%q): %q vs %q", s, cut, StringsTrim(s, cut), strings.Trim(s, cut))
		}
		if sub != "" {
			n := 1 + r.Intn(3)
			a, b := StringsSplitN(s, sub, n), strings.SplitN(s, sub, n)
			if strings.Join(a, "\x00") != strings.Join(b, "\x00") || len(a) != len(b) {
				t.Fatalf("SplitN(%q,%q,%d): %q vs %q", s, sub, n, a, b)
			}
		}
		d := randStr(r, "0123456789x", 22)
		v, ok := ParseUint10(d)
		w, err := strconv.ParseUint(d, 10, 64)
		if ok != (err == nil) || (ok && v != w) {
			t.Fatalf("ParseUint(%q): %v %v vs %v %v", d, v, ok, w, err)
		}
		u := r.Uint64() >> uint(r.Intn(64))
		if FormatUint(uint(u)) != strconv.FormatUint(u, 10) {
			t.Fatalf("FormatUint(%d)", u)
		}
		if FormatInt(int(u)) != strconv.FormatInt(int64(u), 10) || FormatInt(-int(u>>1)) != strconv.FormatInt(-int64(u>>1), 10) {
			t.Fatalf("FormatInt(%d)", u)
		}
	}
	for i := 0; i < 300000; i++ {
		d := randStr(r, "0123456789abxoXfF_z", 6)
		for _, base := range []int{0, 2, 8, 10, 16, 36, 1, 37} {
			v, ok := ParseUintBase(d, base)
			w, err := strconv.ParseUint(d, base, 64)
			if ok != (err == nil) || (ok && v != w) {
				t.Fatalf("ParseUint(%q,%d): %v %v vs %v %v", d, base, v, ok, w, err)
			}
		}
	}
	for i := 0; i < 300000; i++ {
		s := randStr(r, "ab#\xe2\x99\xaf\xad", 8)
		pairs := [][]string{{"\u266f", "#", "\u266d", "b"}, {"a", "xy", "ab", "Q"}, {"ab", "", "b", "bb"}, {"#", "\u266f"}}[r.Intn(4)]
		if got, want := ReplacerReplace(s, pairs), strings.NewReplacer(pairs...).Replace(s); got != want {
			t.Fatalf("Replacer(%q,%q): %q vs %q", s, pairs, got, want)
		}
	}
	const spaces = " \t\n\v\f\rx\xc2\x85\xa0\xe1\x9a\x80\xe2\x81\x9f\xa8\xaf\xe3\x8a\xf0\x9f"
	for i := 0; i < 500000; i++ {
		s := randStr(r, spaces, 7)
		if StringsTrimRightSpace(s) != strings.TrimRightFunc(s, unicode.IsSpace) || StringsTrimLeftSpace(s) != strings.TrimLeftFunc(s, unicode.IsSpace) {
			t.Fatalf("TrimRight/LeftFunc(%q)", s)
		}
		if StringsTrimSpace(s) != strings.TrimSpace(s) {
			t.Fatalf("TrimSpace(%q): %q vs %q", s, StringsTrimSpace(s), strings.TrimSpace(s))
		}
	}
	for _, d := range []string{"18446744073709551615", "18446744073709551616", "99999999999999999999", "00000000000000000000001", ""} {
		v, ok := ParseUint10(d)
		w, err := strconv.ParseUint(d, 10, 64)
		if ok != (err == nil) || (ok && v != w) {
			t.Fatalf("ParseUint(%q)", d)
		}
	}
}
