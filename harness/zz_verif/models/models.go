// Package models holds short Go models of standard-library functions. The engine runs
// them symbolically when an argument is symbolic (concrete calls use the real function);
// each is differential-tested against the real function in models_test.go.
package models

// StringsContains models strings.Contains.
func StringsContains(s, sub string) bool {
	n, m := len(s), len(sub)
	if m == 0 {
		return true
	}
	for i := 0; i+m <= n; i++ {
		if s[i:i+m] == sub {
			return true
		}
	}
	return false
}

// StringsHasPrefix models strings.HasPrefix.
func StringsHasPrefix(s, p string) bool {
	return len(s) >= len(p) && s[:len(p)] == p
}

func inSetASCII(cutset string, b byte) bool {
	for i := 0; i < len(cutset); i++ {
		if cutset[i] == b {
			return true
		}
	}
	return false
}

// StringsTrim models strings.Trim for an ASCII cutset: bytes >= 0x80 of s never match an
// ASCII cutset rune (they belong to multi-byte or invalid sequences), so trimming works
// byte-wise.
func StringsTrim(s, cutset string) string {
	for i := 0; i < len(cutset); i++ {
		if cutset[i] >= 0x80 {
			panic("models.StringsTrim: non-ASCII cutset")
		}
	}
	lo, hi := 0, len(s)
	for lo < hi && inSetASCII(cutset, s[lo]) {
		lo++
	}
	for hi > lo && inSetASCII(cutset, s[hi-1]) {
		hi--
	}
	return s[lo:hi]
}

// StringsSplitN models strings.SplitN for a non-empty separator and n > 0.
func StringsSplitN(s, sep string, n int) []string {
	if n <= 0 || len(sep) == 0 {
		panic("models.StringsSplitN: only n > 0 and non-empty separators are modelled")
	}
	var out []string
	start := 0
	for i := 0; i+len(sep) <= len(s) && len(out) < n-1; {
		if s[i:i+len(sep)] == sep {
			out = append(out, s[start:i])
			i += len(sep)
			start = i
			continue
		}
		i++
	}
	return append(out, s[start:])
}

// ParseUint10 models strconv.ParseUint(s, 10, 64): value and success.
func ParseUint10(s string) (uint64, bool) {
	if len(s) == 0 {
		return 0, false
	}
	const cutoff = (1<<64-1)/10 + 1
	var n uint64
	for i := 0; i < len(s); i++ {
		c := s[i]
		if c < '0' || c > '9' {
			return 0, false
		}
		if n >= cutoff {
			return 0, false
		}
		n *= 10
		n1 := n + uint64(c-'0')
		if n1 < n {
			return 0, false
		}
		n = n1
	}
	return n, true
}

// FormatUint models strconv.FormatUint(v, 10).
func FormatUint(v uint) string {
	if v == 0 {
		return "0"
	}
	var buf [20]byte
	i := len(buf)
	for v > 0 {
		i--
		buf[i] = byte('0' + v%10)
		v /= 10
	}
	return string(buf[i:])
}

// FormatInt models strconv.FormatInt(v, 10).
func FormatInt(v int) string {
	if v < 0 {
		return "-" + FormatUint(uint(-v))
	}
	return FormatUint(uint(v))
}
