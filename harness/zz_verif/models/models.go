// Package models holds short Go models of standard-library functions. The engine runs
// them symbolically when an argument is symbolic (concrete calls use the real function);
// each is differential-tested against the real function in models_test.go.
package models

// StringsContains models strings.Contains.
func StringsContains(s, sub string) bool {
	n, m := len(s), len(sub)
	if m == 0 {
		return true
	}
	for i := 0; i+m <= n; i++ {
		if s[i:i+m] == sub {
			return true
		}
	}
	return false
}

// StringsHasPrefix models strings.HasPrefix.
func StringsHasPrefix(s, p string) bool {
	return len(s) >= len(p) && s[:len(p)] == p
}

func inSetASCII(cutset string, b byte) bool {
	for i := 0; i < len(cutset); i++ {
		if cutset[i] == b {
			return true
		}
	}
	return false
}

// StringsTrim models strings.Trim for an ASCII cutset: bytes >= 0x80 of s never match an
// ASCII cutset rune (they belong to multi-byte or invalid sequences), so trimming works
// byte-wise.
func StringsTrim(s, cutset string) string {
	for i := 0; i < len(cutset); i++ {
		if cutset[i] >= 0x80 {
			panic("models.StringsTrim: non-ASCII cutset")
		}
	}
	lo, hi := 0, len(s)
	for lo < hi && inSetASCII(cutset, s[lo]) {
		lo++
	}
	for hi > lo && inSetASCII(cutset, s[hi-1]) {
		hi--
	}
	return s[lo:hi]
}

// StringsSplitN models strings.SplitN for a non-empty separator and n > 0.
func StringsSplitN(s, sep string, n int) []string {
	if n <= 0 || len(sep) == 0 {
		panic("models.StringsSplitN: only n > 0 and non-empty separators are modelled")
	}
	var out []string
	start := 0
	for i := 0; i+len(sep) <= len(s) && len(out) < n-1; {
		if s[i:i+len(sep)] == sep {
			out = append(out, s[start:i])
			i += len(sep)
			start = i
			continue
		}
		i++
	}
	return append(out, s[start:])
}

// ParseUint10 models strconv.ParseUint(s, 10, 64): value and success.
func ParseUint10(s string) (uint64, bool) {
	if len(s) == 0 {
		return 0, false
	}
	const cutoff = (1<<64-1)/10 + 1
	var n uint64
	for i := 0; i < len(s); i++ {
		c := s[i]
		if c < '0' || c > '9' {
			return 0, false
		}
		if n >= cutoff {
			return 0, false
		}
		n *= 10
		n1 := n + uint64(c-'0')
		if n1 < n {
			return 0, false
		}
		n = n1
	}
	return n, true
}

// FormatUint models strconv.FormatUint(v, 10).
func FormatUint(v uint) string {
	if v == 0 {
		return "0"
	}
	var buf [20]byte
	i := len(buf)
	for v > 0 {
		i--
		buf[i] = byte('0' + v%10)
		v /= 10
	}
	return string(buf[i:])
}

// FormatInt models strconv.FormatInt(v, 10).
func FormatInt(v int) string {
	if v < 0 {
		return "-" + FormatUint(uint(-v))
	}
	return FormatUint(uint(v))
}

func lower(c byte) byte { return c | ('x' - 'X') }

// underscoreOK is strconv's rule for underscores in base-prefixed literals.
func underscoreOK(s string) bool {
	i := rune('^')
	k := 0
	if len(s) >= 1 && (s[0] == '-' || s[0] == '+') {
		s = s[1:]
	}
	hex := false
	if len(s) >= 2 && s[0] == '0' && (lower(s[1]) == 'b' || lower(s[1]) == 'o' || lower(s[1]) == 'x') {
		k = 2
		i = '0'
		hex = lower(s[1]) == 'x'
	}
	for ; k < len(s); k++ {
		if '0' <= s[k] && s[k] <= '9' || hex && 'a' <= lower(s[k]) && lower(s[k]) <= 'f' {
			i = '0'
			continue
		}
		if s[k] == '_' {
			if i != '0' {
				return false
			}
			i = '_'
			continue
		}
		if i == '_' {
			return false
		}
		i = '!'
	}
	return i != '_'
}

// ParseUintBase models strconv.ParseUint(s, base, 64) for base 0 and 2..36.
func ParseUintBase(s string, base int) (uint64, bool) {
	if len(s) == 0 {
		return 0, false
	}
	base0 := base == 0
	s0 := s
	switch {
	case 2 <= base && base <= 36:
	case base == 0:
		base = 10
		if s[0] == '0' {
			switch {
			case len(s) >= 3 && lower(s[1]) == 'b':
				base = 2
				s = s[2:]
			case len(s) >= 3 && lower(s[1]) == 'o':
				base = 8
				s = s[2:]
			case len(s) >= 3 && lower(s[1]) == 'x':
				base = 16
				s = s[2:]
			default:
				base = 8
				s = s[1:]
			}
		}
	default:
		return 0, false
	}
	cutoff := (1<<64-1)/uint64(base) + 1
	underscores := false
	var n uint64
	for i := 0; i < len(s); i++ {
		c := s[i]
		var d byte
		switch {
		case c == '_' && base0:
			underscores = true
			continue
		case '0' <= c && c <= '9':
			d = c - '0'
		case 'a' <= lower(c) && lower(c) <= 'z':
			d = lower(c) - 'a' + 10
		default:
			return 0, false
		}
		if d >= byte(base) {
			return 0, false
		}
		if n >= cutoff {
			return 0, false
		}
		n *= uint64(base)
		n1 := n + uint64(d)
		if n1 < n {
			return 0, false
		}
		n = n1
	}
	if underscores && !underscoreOK(s0) {
		return 0, false
	}
	return n, true
}

// spaceAt returns the length of the UTF-8 encoding of a white-space character (unicode.IsSpace)
// starting at s[i], or 0. The encodings all begin with a start byte, so a byte-pattern match is
// exact from the front and from the back.
func spaceAt(s string, i, end int) int {
	c := s[i]
	if c == ' ' || ('\t' <= c && c <= '\r') {
		return 1
	}
	if i+1 < end && c == 0xC2 && (s[i+1] == 0x85 || s[i+1] == 0xA0) {
		return 2
	}
	if i+2 < end {
		d, e := s[i+1], s[i+2]
		switch {
		case c == 0xE1 && d == 0x9A && e == 0x80: // U+1680
			return 3
		case c == 0xE2 && d == 0x80 && (0x80 <= e && e <= 0x8A || e == 0xA8 || e == 0xA9 || e == 0xAF): // U+2000..200A, 2028, 2029, 202F
			return 3
		case c == 0xE2 && d == 0x81 && e == 0x9F: // U+205F
			return 3
		case c == 0xE3 && d == 0x80 && e == 0x80: // U+3000
			return 3
		}
	}
	return 0
}

// StringsTrimSpace models strings.TrimSpace.
func StringsTrimSpace(s string) string {
	start, end := 0, len(s)
	for start < end {
		n := spaceAt(s, start, end)
		if n == 0 {
			break
		}
		start += n
	}
	for end > start {
		n := 0
		for k := 1; k <= 3 && n == 0; k++ {
			if end-k >= start && spaceAt(s, end-k, end) == k {
				n = k
			}
		}
		if n == 0 {
			break
		}
		end -= n
	}
	return s[start:end]
}

// ReplacerReplace models (*strings.Replacer).Replace for non-empty old strings: matches are
// taken left to right without overlap, the pairs are tried in argument order at each position.
func ReplacerReplace(s string, pairs []string) string {
	out := make([]byte, 0, len(s))
	i := 0
	for i < len(s) {
		matched := false
		for p := 0; p+1 < len(pairs); p += 2 {
			old := pairs[p]
			if len(old) > 0 && i+len(old) <= len(s) && s[i:i+len(old)] == old {
				out = append(out, pairs[p+1]...)
				i += len(old)
				matched = true
				break
			}
		}
		if !matched {
			out = append(out, s[i])
			i++
		}
	}
	return string(out)
}

// StringsTrimRightSpace models strings.TrimRightFunc(s, unicode.IsSpace).
func StringsTrimRightSpace(s string) string {
	end := len(s)
	for end > 0 {
		n := 0
		for k := 1; k <= 3 && n == 0; k++ {
			if end-k >= 0 && spaceAt(s, end-k, end) == k {
				n = k
			}
		}
		if n == 0 {
			break
		}
		end -= n
	}
	return s[:end]
}

// StringsTrimLeftSpace models strings.TrimLeftFunc(s, unicode.IsSpace).
func StringsTrimLeftSpace(s string) string {
	start, end := 0, len(s)
	for start < end {
		n := spaceAt(s, start, end)
		if n == 0 {
			break
		}
		start += n
	}
	return s[start:]
}
