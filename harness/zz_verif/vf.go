// Package zz_verif is the harness API. Inside the symbolic engine every function here is
// intercepted; natively (replay, translator validation) inputs come from the JSON file named
// by $VERIF_REPLAY and results are printed as VERIF-* lines.
package zz_verif

import (
	"encoding/json"
	"fmt"
	"io/fs"
	"os"
	"runtime"
	"strconv"
	"time"

	_ "github.com/berquerant/crd/zz_verif/models" // keeps the model package in every harness build
)

type replayFile struct {
	Inputs map[string]string `json:"inputs"`
	Params map[string]int    `json:"params"`
}

var (
	loaded   bool
	inputs   map[string]string
	params   map[string]int
	counters = map[string]int{}
	Failed   []string
	Marks    []string
)

type stopPath struct{ why string }

func load() {
	if loaded {
		return
	}
	loaded = true
	inputs = map[string]string{}
	p := os.Getenv("VERIF_REPLAY")
	if p == "" {
		return
	}
	b, err := os.ReadFile(p)
	if err != nil {
		panic(err)
	}
	var rf replayFile
	if err := json.Unmarshal(b, &rf); err != nil {
		panic(err)
	}
	inputs = rf.Inputs
	params = rf.Params
}

// Param is a tier-dependent bound; the engine substitutes the tier's value, natively the
// replay file carries the value used.
func Param(name string, def int) int {
	load()
	if v, ok := params[name]; ok {
		return v
	}
	return def
}

// Reset clears per-run state (used by the replay test wrapper).
func Reset() {
	counters = map[string]int{}
	Failed = nil
	Marks = nil
}

func fresh(base string) string {
	n := counters[base]
	counters[base] = n + 1
	if n == 0 {
		return base
	}
	return base + "#" + strconv.Itoa(n)
}

func raw(base string) uint64 {
	load()
	name := fresh(base)
	s, ok := inputs[name]
	if !ok {
		return 0
	}
	v, err := strconv.ParseUint(s, 10, 64)
	if err != nil {
		panic("bad replay value for " + name + ": " + s)
	}
	return v
}

func NondetUint(name string) uint     { return uint(raw(name)) }
func NondetInt(name string) int       { return int(raw(name)) }
func NondetUint8(name string) uint8   { return uint8(raw(name)) }
func NondetUint16(name string) uint16 { return uint16(raw(name)) }
func NondetUint32(name string) uint32 { return uint32(raw(name)) }
func NondetInt32(name string) int32   { return int32(raw(name)) }
func NondetRune(name string) rune     { return rune(raw(name)) }
func NondetBool(name string) bool     { return raw(name) != 0 }

// NondetIntRange returns a value in [lo,hi]; the engine case-splits so the result is concrete.
func NondetIntRange(name string, lo, hi int) int {
	v := int(raw(name))
	if v < lo || v > hi {
		panic(stopPath{"assume"})
	}
	return v
}

// NondetString returns a string of exactly n arbitrary bytes.
func NondetString(name string, n int) string {
	b := make([]byte, n)
	for i := range b {
		b[i] = uint8(raw(name + "." + strconv.Itoa(i)))
	}
	return string(b)
}

// NondetRunes returns n arbitrary int32 values.
func NondetRunes(name string, n int) []rune {
	b := make([]rune, n)
	for i := range b {
		b[i] = rune(raw(name + "." + strconv.Itoa(i)))
	}
	return b
}

func Assume(c bool) {
	if !c {
		panic(stopPath{"assume"})
	}
}

func Assert(label string, c bool) {
	if !c {
		Failed = append(Failed, label)
		fmt.Printf("VERIF-ASSERT-FAILED %s\n", label)
	}
}

func Reach(mark string) { Marks = append(Marks, mark) }

func Observe(name string, v any) {
	fmt.Printf("VERIF-OBSERVE %s=%v\n", fresh("obs:" + name)[4:], v)
}

func Unwind(n int)           {}
func MaxDepth(n int)         {}
func MustTerminate()         {}
func Class(tag string)       {}
func NondetMapOrder(on bool) {}
func NondetSchedule(on bool) {}
func ExpectPanic()           {}
func Stop()                  { panic(stopPath{"stop"}) }

// Ite is a branch-free select in the engine.
func Ite[T any](c bool, a, b T) T {
	if c {
		return a
	}
	return b
}

// Run executes a harness natively and prints the outcome in VERIF-* lines.
func Run(name string, f func()) {
	Reset()
	defer func() {
		r := recover()
		if r == nil {
			fmt.Printf("VERIF-END %s ok failed=%d\n", name, len(Failed))
			return
		}
		if sp, ok := r.(stopPath); ok {
			if sp.why == "assume" {
				fmt.Printf("VERIF-ASSUME-FALSE %s\n", name)
			} else {
				fmt.Printf("VERIF-END %s ok failed=%d\n", name, len(Failed))
			}
			return
		}
		fmt.Printf("VERIF-PANIC %s %v\n", name, r)
	}()
	f()
}

// Summarise asks the engine to execute the named side-effect-free function on all of its
// paths and merge the results (callee paths add up instead of multiplying). The name is
// the SSA name, e.g. "(github.com/berquerant/crd/note.Degree).Semitone". Natively a no-op.
func Summarise(name string) {}

// PreemptionBound limits the number of forced context switches per explored schedule
// (engine only; switches at blocking operations are always explored).
func PreemptionBound(n int) {}

// Native reports whether the harness runs natively (replay / validation) rather than in the engine.
func Native() bool { return true }

// ExecuteFails makes the engine's stub of (*cobra.Command).Execute return an error (engine only).
func ExecuteFails(bool) {}

// ExitCodeOf runs f and returns the status it passes to os.Exit, or -1 when f returns
// (engine only; natively harnesses run the real binary instead, see RunCrd).
func ExitCodeOf(f func()) int { f(); return -1 }

// TempPath names a scratch file: a real temporary path natively, an in-memory name in the engine.
func TempPath(name string) string {
	return os.TempDir() + "/crdverif-" + strconv.Itoa(os.Getpid()) + "-" + name
}

// NondetSpawnOrder makes the engine explore which goroutine runs first wherever one is
// started (and nowhere else): cheap enough for long inputs.
func NondetSpawnOrder(on bool) {}

// CPUs sets what runtime.GOMAXPROCS(0) and runtime.NumCPU() report; natively it sets GOMAXPROCS.
func CPUs(n int) { runtime.GOMAXPROCS(n) }

// stdinPortion tells the engine that the next Read on a file returns at most n bytes (a short
// read, as a pipe delivers when the producer has not written everything yet). io.Reader's
// contract allows it at any time; natively StdinFrom produces it with a real pipe.
func stdinPortion(n int) {}

// StdinFrom makes os.Stdin deliver the contents of the file at path; with firstPortion > 0 the
// first read returns at most that many bytes and the rest arrives later. The returned function
// restores os.Stdin.
func StdinFrom(path string, firstPortion int) (restore func(), err error) {
	old := os.Stdin
	if !Native() || firstPortion <= 0 {
		f, err := os.Open(path)
		if err != nil {
			return func() {}, err
		}
		os.Stdin = f
		if firstPortion > 0 {
			stdinPortion(firstPortion)
		}
		return func() { os.Stdin = old; f.Close() }, nil
	}
	b, err := os.ReadFile(path)
	if err != nil {
		return func() {}, err
	}
	r, w, err := os.Pipe()
	if err != nil {
		return func() {}, err
	}
	if firstPortion > len(b) {
		firstPortion = len(b)
	}
	go func() {
		w.Write(b[:firstPortion])
		time.Sleep(300 * time.Millisecond)
		w.Write(b[firstPortion:])
		w.Close()
	}()
	os.Stdin = r
	return func() { os.Stdin = old; r.Close() }, nil
}

// FileInfoModel is what the engine's model of (*os.File).Stat returns: a plain fs.FileInfo.
type FileInfoModel struct {
	FName string
	FSize int64
	FMode fs.FileMode
}

func (f FileInfoModel) Name() string       { return f.FName }
func (f FileInfoModel) Size() int64        { return f.FSize }
func (f FileInfoModel) Mode() fs.FileMode  { return f.FMode }
func (f FileInfoModel) ModTime() time.Time { return time.Time{} }
func (f FileInfoModel) IsDir() bool        { return f.FMode.IsDir() }
func (f FileInfoModel) Sys() any           { return nil }

// newFileInfo is called by the engine's Stat model.
func newFileInfo(name string, size int64, charDevice bool) fs.FileInfo {
	m := fs.FileMode(0o644)
	if charDevice {
		m = fs.ModeDevice | fs.ModeCharDevice | 0o666
	}
	return FileInfoModel{FName: name, FSize: size, FMode: m}
}
