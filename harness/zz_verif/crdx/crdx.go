// Package crdx converts between the reference numbering of package spec and crd's own
// types. It relies only on the *names* of crd's exported constants.
package crdx

import (
	"sort"

	"github.com/berquerant/crd/chord"
	"github.com/berquerant/crd/note"
	"github.com/berquerant/crd/op"
	vf "github.com/berquerant/crd/zz_verif"
	"github.com/berquerant/crd/zz_verif/spec"
)

func Name(letter int) note.Name {
	switch letter {
	case 0:
		return note.C
	case 1:
		return note.D
	case 2:
		return note.E
	case 3:
		return note.F
	case 4:
		return note.G
	case 5:
		return note.A
	case 6:
		return note.B
	}
	return note.UnknownName
}

func Letter(n note.Name) int {
	switch n {
	case note.C:
		return 0
	case note.D:
		return 1
	case note.E:
		return 2
	case note.F:
		return 3
	case note.G:
		return 4
	case note.A:
		return 5
	case note.B:
		return 6
	}
	return -1
}

func Acc(acc int) op.Accidental {
	switch acc {
	case 0:
		return op.Natural
	case 1:
		return op.Sharp
	case -1:
		return op.Flat
	}
	return op.UnknownAccidental
}

func AccNum(a op.Accidental) int {
	switch a {
	case op.Natural:
		return 0
	case op.Sharp:
		return 1
	case op.Flat:
		return -1
	}
	return 99
}

func Quality(q int) note.DegreeName {
	switch q {
	case spec.QMajor:
		return note.MajorDegree
	case spec.QMinor:
		return note.MinorDegree
	case spec.QPerfect:
		return note.PerfectDegree
	case spec.QAugmented:
		return note.AugmentedDegree
	case spec.QDiminished:
		return note.DiminishedDegree
	case spec.QDAugmented:
		return note.DoublyAugmentedDegree
	case spec.QDDiminished:
		return note.DoublyDiminishedDegree
	}
	return note.UnknownDegree
}

var qualityTable = [9]note.DegreeName{note.UnknownDegree, note.MajorDegree, note.MinorDegree, note.PerfectDegree, note.AugmentedDegree,
	note.DiminishedDegree, note.DoublyAugmentedDegree, note.DoublyDiminishedDegree, note.DegreeName(99)}

// QualityOf is Quality without branching (q in 0..8; 0 and 8 are not qualities).
func QualityOf(q int) note.DegreeName { return qualityTable[q] }

func QualityCode(n note.DegreeName) int {
	switch n {
	case note.MajorDegree:
		return spec.QMajor
	case note.MinorDegree:
		return spec.QMinor
	case note.PerfectDegree:
		return spec.QPerfect
	case note.AugmentedDegree:
		return spec.QAugmented
	case note.DiminishedDegree:
		return spec.QDiminished
	case note.DoublyAugmentedDegree:
		return spec.QDAugmented
	case note.DoublyDiminishedDegree:
		return spec.QDDiminished
	}
	return 0
}

// SupportedKey returns an arbitrary key among those crd has a scale for, with its
// reference coordinates. The three selectors are case-split.
func SupportedKey(prefix string) (op.Key, int, int, bool) {
	letter := vf.NondetIntRange(prefix+"letter", 0, 6)
	acc := vf.NondetIntRange(prefix+"acc", -1, 1)
	minor := vf.NondetIntRange(prefix+"minor", 0, 1) == 1
	k := op.Key{Name: Name(letter), Accidental: Acc(acc), Minor: minor}
	_, err := op.NewScale(k)
	vf.Assume(err == nil)
	return k, letter, acc, minor
}

var (
	nameTable = [7]note.Name{note.C, note.D, note.E, note.F, note.G, note.A, note.B}
	accTable  = [3]op.Accidental{op.Flat, op.Natural, op.Sharp}
)

// SymbolicListedKey returns one of the 28 keys the properties name, kept symbolic (no
// case split): letter in 0..6, acc in -1..1, mode, constrained by the reference predicate.
func SymbolicListedKey(prefix string) (op.Key, int, int, bool) {
	letter := vf.NondetInt(prefix + "letter")
	acc := vf.NondetInt(prefix + "acc")
	minor := vf.NondetBool(prefix + "minor")
	vf.Assume(0 <= letter)
	vf.Assume(letter <= 6)
	vf.Assume(-1 <= acc)
	vf.Assume(acc <= 1)
	vf.Assume(spec.IsListedKey(letter, acc, minor))
	return op.Key{Name: nameTable[letter], Accidental: accTable[acc+1], Minor: minor}, letter, acc, minor
}

// LetterOf is Letter without branching on a symbolic name.
func LetterOf(n note.Name) int {
	r := -1
	for i, x := range nameTable {
		r = vf.Ite(x == n, i, r)
	}
	return r
}

// AccNumOf is AccNum without branching on a symbolic accidental.
func AccNumOf(a op.Accidental) int {
	r := 99
	for i, x := range accTable {
		r = vf.Ite(x == a, i-1, r)
	}
	return r
}

// AnyKey returns an arbitrary spelling [A-G][#b]?m?, supported or not.
func AnyKey(prefix string) (op.Key, int, int, bool) {
	letter := vf.NondetIntRange(prefix+"letter", 0, 6)
	acc := vf.NondetIntRange(prefix+"acc", -1, 1)
	minor := vf.NondetIntRange(prefix+"minor", 0, 1) == 1
	return op.Key{Name: Name(letter), Accidental: Acc(acc), Minor: minor}, letter, acc, minor
}

// Dictionary is the built-in dictionary assembled the way cmd.newChordBuilder does it.
type Dictionary struct {
	Map     *chord.Map
	Chords  []chord.Chord
	Attrs   []chord.Attribute
	Symbols []string // every name and display symbol, sorted, deduplicated
}

func BuiltinDictionary() *Dictionary {
	b := chord.NewBuilder()
	d := &Dictionary{Chords: chord.BasicChords(), Attrs: chord.BasicAttributes()}
	for _, a := range d.Attrs {
		b.Attribute(a)
	}
	seen := map[string]bool{}
	for _, c := range d.Chords {
		b.Chord(c)
		for _, s := range []string{c.Name, c.Meta.Display} {
			if !seen[s] {
				seen[s] = true
				d.Symbols = append(d.Symbols, s)
			}
		}
	}
	sort.Strings(d.Symbols)
	m, err := b.Build()
	if err != nil {
		panic(err)
	}
	d.Map = m
	return d
}

// RefAttributes is the independent parent-first walk over the raw records: the parent's
// attributes (transitively), then the chord's own, looked up by name in the raw list
// (a later record with the same name or display wins, as later definitions override).
func (d *Dictionary) RefAttributes(symbol string, depth int) ([]chord.Attribute, bool) {
	if depth > len(d.Chords)+1 {
		return nil, false
	}
	var rec *chord.Chord
	for i := range d.Chords {
		if d.Chords[i].Name == symbol || d.Chords[i].Meta.Display == symbol {
			rec = &d.Chords[i]
		}
	}
	if rec == nil {
		return nil, false
	}
	var out []chord.Attribute
	if rec.Extends != "" {
		p, ok := d.RefAttributes(rec.Extends, depth+1)
		if !ok {
			return nil, false
		}
		out = append(out, p...)
	}
	for _, an := range rec.Attributes {
		var found *chord.Attribute
		for i := range d.Attrs {
			if d.Attrs[i].Name == an {
				found = &d.Attrs[i]
			}
		}
		if found == nil {
			return nil, false
		}
		out = append(out, *found)
	}
	return out, true
}
