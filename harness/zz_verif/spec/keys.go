package spec

import vf "github.com/berquerant/crd/zz_verif"

// Letters C D E F G A B are 0..6; accidentals natural/sharp/flat are 0/+1/-1 (E2).
var (
	naturalPitch = [7]int{0, 2, 4, 5, 7, 9, 11}
	lofLetter    = [7]int{0, 2, 4, -1, 1, 3, 5} // position on the line of fifths, C = 0
	// order in which sharps are added: F C G D A E B; flats: B E A D G C F
	sharpOrder = [7]int{3, 0, 4, 1, 5, 2, 6}
	flatOrder  = [7]int{6, 2, 5, 1, 4, 0, 3}
)

// RawPitch is natural pitch + accidental, in -1..12.
func RawPitch(letter, acc int) int { return naturalPitch[letter] + acc }

// PitchClass is RawPitch mod 12 in 0..11.
func PitchClass(letter, acc int) int { return (naturalPitch[letter] + acc + 12) % 12 }

// Signature is the number of sharps (positive) or flats (negative) of the key.
func Signature(letter, acc int, minor bool) int {
	s := lofLetter[letter] + 7*acc
	return s - vf.Ite(minor, 3, 0)
}

// HasScale: a key can be written with single accidentals iff |signature| <= 7.
func HasScale(letter, acc int, minor bool) bool {
	s := Signature(letter, acc, minor)
	return -7 <= s && s <= 7
}

// IsListedKey reports whether the key is one of the 28 keys the property names:
// the fifteen major keys from seven flats to seven sharps and the minor keys
// Am Em Bm F#m C#m G#m D#m Dm Gm Cm Fm Bbm Ebm.
func IsListedKey(letter, acc int, minor bool) bool {
	s := Signature(letter, acc, minor)
	if !minor {
		return -7 <= s && s <= 7
	}
	return -6 <= s && s <= 6
}

// AccidentalInKey is the accidental (0,+1,-1) the note letter carries in a key of signature sig.
func AccidentalInKey(letter, sig int) int {
	for i := 0; i < 7; i++ {
		if i < sig && sharpOrder[i] == letter {
			return 1
		}
		if i < -sig && flatOrder[i] == letter {
			return -1
		}
	}
	return 0
}

var (
	majorSteps = [7]int{2, 2, 1, 2, 2, 2, 1}
	minorSteps = [7]int{2, 1, 2, 2, 1, 2, 2}
)

// Step returns the i-th step (in semitones) of the major / natural minor pattern.
func Step(minor bool, i int) int {
	if minor {
		return minorSteps[i]
	}
	return majorSteps[i]
}

// Circle moves (E6) on classes (pitch class, mode).
const (
	MoveParallel    = 1
	MoveRelative    = 2
	MoveDominant    = 3
	MoveSubDominant = 4
)

func Move(pc int, minor bool, move int) (int, bool) {
	switch move {
	case MoveParallel:
		return pc, !minor
	case MoveRelative:
		if minor {
			return (pc + 3) % 12, false
		}
		return (pc + 9) % 12, true
	case MoveDominant:
		return (pc + 7) % 12, minor
	case MoveSubDominant:
		return (pc + 5) % 12, minor
	}
	return pc, minor
}
