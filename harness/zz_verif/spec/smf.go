package spec

// A strict reader of Standard MIDI Files, written from the SMF 1.0 specification. It
// shares no code with the writer under test.

type SMFEvent struct {
	Delta    uint32
	Status   byte // 0x80..0xEF channel message status, 0xFF for meta
	MetaType byte
	Data     []byte
}

type SMFFile struct {
	Format   int
	NTracks  int
	Division int
	Tracks   [][]SMFEvent
}

func be16(b []byte) int { return int(b[0])<<8 | int(b[1]) }
func be32(b []byte) int { return int(b[0])<<24 | int(b[1])<<16 | int(b[2])<<8 | int(b[3]) }

// readVLQ reads a variable-length quantity of at most 4 bytes.
func readVLQ(b []byte, pos int) (val uint32, next int, ok bool) {
	for i := 0; i < 4; i++ {
		if pos+i >= len(b) {
			return 0, 0, false
		}
		c := b[pos+i]
		val = val<<7 | uint32(c&0x7F)
		if c&0x80 == 0 {
			return val, pos + i + 1, true
		}
	}
	return 0, 0, false
}

// ParseSMF returns the decoded file or a reason why the bytes are not a well-formed SMF.
func ParseSMF(b []byte) (*SMFFile, string) {
	if len(b) < 14 {
		return nil, "file shorter than a header chunk"
	}
	if b[0] != 'M' || b[1] != 'T' || b[2] != 'h' || b[3] != 'd' {
		return nil, "no MThd"
	}
	if be32(b[4:8]) != 6 {
		return nil, "header length is not 6"
	}
	f := &SMFFile{Format: be16(b[8:10]), NTracks: be16(b[10:12]), Division: be16(b[12:14])}
	if f.Format != 0 && f.Format != 1 {
		return nil, "format is neither 0 nor 1"
	}
	if f.Format == 0 && f.NTracks != 1 {
		return nil, "format 0 with more than one track"
	}
	if f.NTracks < 1 {
		return nil, "no tracks"
	}
	if f.Division&0x8000 != 0 || f.Division == 0 {
		return nil, "division is not a positive ticks-per-quarter value"
	}
	pos := 14
	for t := 0; t < f.NTracks; t++ {
		if pos+8 > len(b) {
			return nil, "missing track chunk"
		}
		if b[pos] != 'M' || b[pos+1] != 'T' || b[pos+2] != 'r' || b[pos+3] != 'k' {
			return nil, "no MTrk"
		}
		n := be32(b[pos+4 : pos+8])
		pos += 8
		if n < 0 || pos+n > len(b) {
			return nil, "track chunk longer than the file"
		}
		evs, why := parseTrack(b[pos : pos+n])
		if why != "" {
			return nil, why
		}
		f.Tracks = append(f.Tracks, evs)
		pos += n
	}
	if pos != len(b) {
		return nil, "bytes after the last declared track"
	}
	return f, ""
}

func parseTrack(b []byte) ([]SMFEvent, string) {
	var evs []SMFEvent
	pos := 0
	running := byte(0)
	ended := false
	for pos < len(b) {
		if ended {
			return nil, "events after end-of-track"
		}
		d, next, ok := readVLQ(b, pos)
		if !ok {
			return nil, "bad delta time"
		}
		pos = next
		if pos >= len(b) {
			return nil, "delta without event"
		}
		st := b[pos]
		switch {
		case st == 0xFF:
			if pos+2 > len(b) {
				return nil, "truncated meta event"
			}
			typ := b[pos+1]
			if typ >= 0x80 {
				return nil, "meta type is not a data byte"
			}
			n, next, ok := readVLQ(b, pos+2)
			if !ok || next+int(n) > len(b) {
				return nil, "bad meta length"
			}
			evs = append(evs, SMFEvent{Delta: d, Status: 0xFF, MetaType: typ, Data: b[next : next+int(n)]})
			pos = next + int(n)
			running = 0
			if typ == 0x2F {
				if n != 0 {
					return nil, "end-of-track with data"
				}
				ended = true
			}
		case st == 0xF0 || st == 0xF7:
			n, next, ok := readVLQ(b, pos+1)
			if !ok || next+int(n) > len(b) {
				return nil, "bad sysex length"
			}
			evs = append(evs, SMFEvent{Delta: d, Status: st, Data: b[next : next+int(n)]})
			pos = next + int(n)
			running = 0
		case st >= 0xF0:
			return nil, "system message inside a track"
		default:
			if st >= 0x80 {
				running = st
				pos++
			} else if running == 0 {
				return nil, "data byte without running status"
			}
			need := 2
			if running&0xF0 == 0xC0 || running&0xF0 == 0xD0 {
				need = 1
			}
			if pos+need > len(b) {
				return nil, "truncated channel message"
			}
			for i := 0; i < need; i++ {
				if b[pos+i] >= 0x80 {
					return nil, "data byte above 127"
				}
			}
			evs = append(evs, SMFEvent{Delta: d, Status: running, Data: b[pos : pos+need]})
			pos += need
		}
	}
	if !ended {
		return nil, "track without end-of-track"
	}
	return evs, ""
}
