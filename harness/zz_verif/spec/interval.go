// Package spec holds the reference definitions (oracles). They are written from the
// property statements and standard music theory and use none of crd's tables or types.
package spec

import vf "github.com/berquerant/crd/zz_verif"

// Quality codes (the numbering of the notation's seven qualities).
const (
	QMajor       = 1
	QMinor       = 2
	QPerfect     = 3
	QAugmented   = 4
	QDiminished  = 5
	QDAugmented  = 6
	QDDiminished = 7
)

var majorScale = [7]int{0, 2, 4, 5, 7, 9, 11}

// IntervalSize returns the size in semitones of interval number n with quality q and
// whether that quality exists for n (E1). n must be >= 1 for an interval to exist.
func IntervalSize(n uint, q int) (size int, exists bool) {
	if n == 0 {
		return 0, false
	}
	simple := int((n-1)%7) + 1
	oct := int((n - 1) / 7)
	base := majorScale[simple-1] + 12*oct
	perfectClass := simple == 1 || simple == 4 || simple == 5
	switch q {
	case QMajor:
		return base, !perfectClass
	case QMinor:
		return base - 1, !perfectClass
	case QPerfect:
		return base, perfectClass
	case QAugmented:
		return base + 1, true
	case QDiminished:
		return base - vf.Ite(perfectClass, 1, 2), true
	case QDAugmented:
		return base + 2, true
	case QDDiminished:
		return base - vf.Ite(perfectClass, 2, 3), true
	}
	return 0, false
}

// IsPerfectClass reports whether interval number n is a unison, fourth, fifth (or compound of).
func IsPerfectClass(n uint) bool {
	s := (n-1)%7 + 1
	return s == 1 || s == 4 || s == 5
}

// ParseIntervalNotation reads crd's printed interval notation: accidental marks followed by
// the number ("3", "b3", "bb7", "bbb4", "#11", "##5"). The marks mean: none = major/perfect,
// b = minor (diminished for unison/fourth/fifth), bb = diminished, bbb = doubly diminished,
// # = augmented, ## = doubly augmented.
func ParseIntervalNotation(s string) (n uint, q int, ok bool) {
	i := 0
	for i < len(s) && (s[i] == 'b' || s[i] == '#') {
		i++
	}
	marks := s[:i]
	if i == len(s) {
		return 0, 0, false
	}
	for ; i < len(s); i++ {
		if s[i] < '0' || s[i] > '9' {
			return 0, 0, false
		}
		n = n*10 + uint(s[i]-'0')
	}
	if n == 0 {
		return 0, 0, false
	}
	switch marks {
	case "":
		q = QMajor
		if IsPerfectClass(n) {
			q = QPerfect
		}
	case "b":
		q = QMinor
		if IsPerfectClass(n) {
			q = QDiminished
		}
	case "bb":
		q = QDiminished
	case "bbb":
		q = QDDiminished
	case "#":
		q = QAugmented
	case "##":
		q = QDAugmented
	default:
		return 0, 0, false
	}
	return n, q, true
}
