package chord

import (
	"fmt"
	"sort"
	"strings"

	"github.com/berquerant/crd/note"
	vf "github.com/berquerant/crd/zz_verif"
	"github.com/berquerant/crd/zz_verif/spec"
)

var (
	verifChords = BasicChords()
	verifAttrs  = BasicAttributes()
)

func verifBuiltinMap() *Map {
	b := NewBuilder()
	for _, a := range verifAttrs {
		b.Attribute(a)
	}
	for _, c := range verifChords {
		b.Chord(c)
	}
	m, err := b.Build()
	if err != nil {
		panic(err)
	}
	return m
}

var verifMap = verifBuiltinMap()

func verifQualityCode(n note.DegreeName) int {
	switch n {
	case note.MajorDegree:
		return spec.QMajor
	case note.MinorDegree:
		return spec.QMinor
	case note.PerfectDegree:
		return spec.QPerfect
	case note.AugmentedDegree:
		return spec.QAugmented
	case note.DiminishedDegree:
		return spec.QDiminished
	case note.DoublyAugmentedDegree:
		return spec.QDAugmented
	case note.DoublyDiminishedDegree:
		return spec.QDDiminished
	}
	return 0
}

// textbook interval sets (E9), by display symbol
var verifTextbook = map[string][]int{
	"": {0, 4, 7}, "m": {0, 3, 7}, "dim": {0, 3, 6}, "aug": {0, 4, 8},
	"7": {0, 4, 7, 10}, "M7": {0, 4, 7, 11}, "maj7": {0, 4, 7, 11}, "m7": {0, 3, 7, 10}, "mM7": {0, 3, 7, 11},
	"m7b5": {0, 3, 6, 10}, "dim7": {0, 3, 6, 9}, "augM7": {0, 4, 8, 11},
	"9": {0, 4, 7, 10, 14}, "m9": {0, 3, 7, 10, 14}, "M9": {0, 4, 7, 11, 14}, "maj9": {0, 4, 7, 11, 14}, "mM9": {0, 3, 7, 11, 14},
	"sus4": {0, 5, 7}, "7sus4": {0, 5, 7, 10}, "6": {0, 4, 7, 9}, "m6": {0, 3, 7, 9}, "add9": {0, 4, 7, 14}, "sus2": {0, 2, 7},
}

func verifSetOf(attrs []Attribute) []int {
	seen := map[int]bool{}
	var out []int
	for _, a := range attrs {
		s, ok := a.Semitone()
		if !ok {
			return nil
		}
		if !seen[int(s)] {
			seen[int(s)] = true
			out = append(out, int(s))
		}
	}
	sort.Ints(out)
	return out
}

func verifSameInts(a, b []int) bool {
	if len(a) != len(b) {
		return false
	}
	for i := range a {
		if a[i] != b[i] {
			return false
		}
	}
	return true
}

// VerifC16Builtins: every built-in definition resolves, by name and by display symbol, to its
// textbook interval set; every symbol of the statement is defined.
func VerifC16Builtins() {
	i := vf.NondetIntRange("chord", 0, len(verifChords)-1)
	c := verifChords[i]
	want, known := verifTextbook[c.Meta.Display]
	vf.Assert("definition-is-a-textbook-symbol", known)
	byName, ok1 := verifMap.GetChordAttributes(c.Name)
	byDisplay, ok2 := verifMap.GetChordAttributes(c.Meta.Display)
	vf.Assert("resolves-by-name-and-by-symbol", ok1 && ok2)
	vf.Assert("textbook-intervals", verifSameInts(verifSetOf(byName), want))
	vf.Assert("name-and-symbol-interchangeable", verifSameInts(verifSetOf(byName), verifSetOf(byDisplay)) && len(byName) == len(byDisplay))
	r1, _ := verifMap.GetChord(c.Name)
	r2, _ := verifMap.GetChord(c.Meta.Display)
	vf.Assert("same-record-by-name-and-symbol", r1.Name == r2.Name && r1.Meta.Display == r2.Meta.Display && r1.Extends == r2.Extends)
	// every symbol the statement lists exists
	syms := make([]string, 0, len(verifTextbook))
	for s := range verifTextbook {
		syms = append(syms, s)
	}
	sort.Strings(syms)
	k := vf.NondetIntRange("symbol", 0, len(syms)-1)
	got, ok := verifMap.GetChordAttributes(syms[k])
	vf.Assert("listed-symbol-is-defined", ok)
	vf.Assert("listed-symbol-has-textbook-intervals", verifSameInts(verifSetOf(got), verifTextbook[syms[k]]))
	vf.Reach("end")
}

var verifEnglish = map[string]int{"Major": spec.QMajor, "Minor": spec.QMinor, "Perfect": spec.QPerfect, "Augmented": spec.QAugmented, "Diminished": spec.QDiminished}

// VerifC16AttrNames: every built-in attribute name <Quality><n> denotes that interval, and
// the embedded list is what GenerateAttributes(20) produces.
func VerifC16AttrNames() {
	gen := GenerateAttributes(20)
	vf.Assert("embedded-list-is-the-generated-list", len(gen) == len(verifAttrs))
	i := vf.NondetIntRange("attr", 0, len(verifAttrs)-1)
	a := verifAttrs[i]
	if i < len(gen) {
		vf.Assert("embedded-entry-equals-generated-entry", gen[i].Name == a.Name && gen[i].Degree == a.Degree)
	}
	// split the English name
	j := 0
	for j < len(a.Name) && (a.Name[j] < '0' || a.Name[j] > '9') {
		j++
	}
	q, okq := verifEnglish[a.Name[:j]]
	n := 0
	for _, ch := range a.Name[j:] {
		n = n*10 + int(ch-'0')
	}
	vf.Assert("name-is-quality-plus-number", okq && j < len(a.Name))
	want, exists := spec.IntervalSize(uint(n), q)
	got, ok := a.Semitone()
	vf.Assert("attribute-denotes-the-interval-its-name-says", ok && (exists || n == 1) && int(got) == want)
	vf.Assert("attribute-degree-matches-name", int(a.Degree.Value) == n && verifQualityCode(a.Degree.Name) == q)
	vf.Reach("end")
}

// ---- user dictionaries ----

type verifUser struct {
	name    string
	display string
	extends string
	attrs   []string
}

// VerifC16UserDict: user chords appended after the built-ins: usable like built-ins with
// transitive inheritance, and every inconsistency (dangling attribute, dangling or cyclic
// extends, unnamed entry) is rejected with an error — never a panic or endless recursion.
func VerifC16UserDict() {
	k := vf.NondetIntRange("chords", 1, vf.Param("C16.maxUser", 2))
	vf.MaxDepth(60)
	vf.MustTerminate()
	users := make([]verifUser, k)
	for i := range users {
		u := verifUser{name: fmt.Sprintf("User%d", i), display: fmt.Sprintf("u%d", i)}
		// three or more user chords: a reduced choice per chord (own name or a re-used one, no
		// symbol take-over, attributes none / built-in / dangling) — the full product would be
		// ~10^7 paths; every kind of inheritance (none / user / built-in / deep built-in /
		// dangling, cycles among user chords) stays
		small := k >= 3
		naming := 0
		if small {
			naming = []int{0, 2}[vf.NondetIntRange("naming", 0, 1)]
		} else {
			naming = vf.NondetIntRange("naming", 0, 3)
		}
		switch naming {
		case 1:
			u.name = ""
		case 2:
			u.name = "User0" // a later entry re-using an earlier name (its own display stays)
		case 3:
			u.name, u.display = "DominantSeventh", "7" // re-defining a built-in under its own name and symbol
		}
		if !small && u.name != "DominantSeventh" && vf.NondetIntRange("symbol", 0, 1) == 1 {
			u.display = "sus4" // a new chord taking over a symbol that is already in use
		}
		e := vf.NondetIntRange("extends", 0, k+3)
		switch {
		case e == 0:
		case e <= k:
			u.extends = fmt.Sprintf("User%d", e-1)
		case e == k+1:
			u.extends = "MinorTriad"
		case e == k+2:
			u.extends = "MajorNinthAlias1" // the deepest built-in chain: maj9 -> M9 -> M7 -> major triad
		default:
			u.extends = "NoSuchChord"
		}
		attrs := 0
		if small {
			attrs = []int{0, 1, 3}[vf.NondetIntRange("attrs", 0, 2)]
		} else {
			attrs = vf.NondetIntRange("attrs", 0, 3)
		}
		switch attrs {
		case 1:
			u.attrs = []string{"Major7"}
		case 2:
			u.attrs = []string{"UserAttr", "Perfect5"}
		case 3:
			u.attrs = []string{"NoSuchAttr"}
		}
		users[i] = u
	}
	var sb strings.Builder
	for _, u := range users {
		fmt.Fprintf(&sb, "- name: %q\n  meta:\n    display: %q\n", u.name, u.display)
		if u.extends != "" {
			fmt.Fprintf(&sb, "  extends: %s\n", u.extends)
		}
		if len(u.attrs) > 0 {
			sb.WriteString("  attributes:\n")
			for _, a := range u.attrs {
				fmt.Fprintf(&sb, "    - %s\n", a)
			}
		}
	}
	// optionally a blank entry — an unfilled template block — closes the file: an unnamed entry
	blank := vf.NondetIntRange("blank-entry", 0, 2)
	switch blank {
	case 1:
		sb.WriteString("- {}\n")
	case 2:
		sb.WriteString("- name: \"\"\n  meta:\n    display: \"\"\n")
	}
	parsed, perr := ParseChords([]byte(sb.String()))
	uattrs, aerr := ParseAttributes([]byte("- name: UserAttr\n  degree: \"b9\"\n"))
	vf.Assert("user-attribute-file-parses", aerr == nil && len(uattrs) == 1)

	// what must be refused
	bad := blank != 0
	defined := func(name string) bool {
		if name == "MinorTriad" || name == "MajorNinthAlias1" {
			return true
		}
		for _, x := range users {
			if x.name != "" && x.name == name {
				return true
			}
		}
		return false
	}
	// An entry whose name and symbol are both taken over by later entries is not part of the
	// resulting dictionary at all; whether a flaw in such an entry is reported is a don't-care.
	badShadowed := false
	for i, u := range users {
		live := false
		{
			bySymbol, byName := true, true
			for _, later := range users[i+1:] {
				bySymbol = bySymbol && later.display != u.display
				byName = byName && later.name != u.name
			}
			live = bySymbol || byName
		}
		flawed := u.name == "" || (u.extends == "" && len(u.attrs) == 0) || (u.extends != "" && !defined(u.extends))
		for _, a := range u.attrs {
			if a == "NoSuchAttr" {
				flawed = true
			}
		}
		if flawed && live {
			bad = true
		}
		if flawed && !live {
			badShadowed = true
		}
	}
	if badShadowed && !bad {
		vf.Reach("dont-care-shadowed-entry")
		return
	}
	// cycle among user chords. With a re-used name "extends N" can be read by name (N extends
	// N is a cycle) or by resolution (N means the later definition): where the two readings
	// disagree the outcome is a don't-care.
	resolve := func(name string) int {
		last := -1
		for j := range users {
			if users[j].name != "" && users[j].name == name {
				last = j
			}
		}
		return last
	}
	cyclic, cyclicByName := false, false
	for i := range users {
		cur, steps := i, 0
		names := map[string]bool{users[i].name: true}
		for steps <= k {
			nxt := resolve(users[cur].extends)
			if nxt < 0 {
				break
			}
			if names[users[nxt].name] {
				cyclicByName = true
			}
			names[users[nxt].name] = true
			cur = nxt
			steps++
		}
		if steps > k {
			cyclic = true
		}
	}
	if cyclic != cyclicByName && !bad {
		vf.Reach("dont-care-name-reuse")
		return
	}
	if cyclic {
		vf.Class("cyclic-extends")
	}
	var m *Map
	var berr error
	if perr == nil {
		b := NewBuilder()
		for _, a := range verifAttrs {
			b.Attribute(a)
		}
		for _, a := range uattrs {
			b.Attribute(a)
		}
		for _, c := range verifChords {
			b.Chord(c)
		}
		for _, c := range parsed {
			b.Chord(c)
		}
		m, berr = b.Build()
	}
	rejected := perr != nil || berr != nil
	if bad || cyclic {
		vf.Assert("inconsistent-dictionary-is-rejected", rejected)
		vf.Reach("rejected")
		vf.Class("")
		return
	}
	vf.Class("")
	vf.Assert("consistent-dictionary-is-accepted", !rejected)
	if rejected {
		return
	}
	// usable like built-ins: parent-first transitive closure
	// (where two entries share a name or a symbol, the later definition is the one in force)
	for i, u := range users {
		lastBySymbol, lastByName := true, true
		for _, later := range users[i+1:] {
			lastBySymbol = lastBySymbol && later.display != u.display
			lastByName = lastByName && later.name != u.name
		}
		var want []string
		var walk func(j, depth int)
		walk = func(j, depth int) {
			x := users[j]
			if x.extends == "MinorTriad" {
				want = append(want, "Perfect1", "Minor3", "Perfect5")
			} else if x.extends == "MajorNinthAlias1" {
				want = append(want, verifBuiltinNames("MajorNinthAlias1", 0)...)
			} else if x.extends != "" {
				last := -1
				for p := range users {
					if users[p].name == x.extends {
						last = p // a later definition of a name wins
					}
				}
				if last >= 0 && depth < k+1 {
					walk(last, depth+1)
				}
			}
			want = append(want, x.attrs...)
		}
		walk(i, 0)
		check := func(key string) bool {
			got, ok := m.GetChordAttributes(key)
			same := ok && len(got) == len(want)
			for j := 0; same && j < len(got); j++ {
				same = got[j].Name == want[j]
			}
			return same
		}
		if lastBySymbol {
			_, ok := m.GetChordAttributes(u.display)
			vf.Assert("user-chord-resolves-by-symbol", ok)
			vf.Assert("inherits-parents-notes-transitively-parent-first", check(u.display))
		}
		if lastByName {
			vf.Assert("user-chord-resolves-by-long-name-like-by-symbol", check(u.name))
		}
	}
	// built-ins still work
	bi, ok := m.GetChordAttributes("m7")
	vf.Assert("builtins-still-usable", ok && verifSameInts(verifSetOf(bi), verifTextbook["m7"]))
	vf.Reach("accepted")
	vf.Reach("end")
}

func verifAttrNames(as []Attribute) []string {
	out := make([]string, len(as))
	for i, a := range as {
		out[i] = a.Name
	}
	return out
}

func verifSameNames(a, b []string) bool {
	if len(a) != len(b) {
		return false
	}
	for i := range a {
		if a[i] != b[i] {
			return false
		}
	}
	return true
}

// verifRefNames is the parent-first walk over the raw records (no crd lookup code).
func verifRefNames(symbol string, depth int) []string {
	if depth > len(verifChords) {
		return nil
	}
	var rec *Chord
	for i := range verifChords {
		if verifChords[i].Name == symbol || verifChords[i].Meta.Display == symbol {
			rec = &verifChords[i]
		}
	}
	if rec == nil {
		return nil
	}
	var out []string
	if rec.Extends != "" {
		out = append(out, verifRefNames(rec.Extends, depth+1)...)
	}
	return append(out, rec.Attributes...)
}

// VerifC16LookupHistory: a dictionary answers every lookup the same way whatever was looked
// up before, and an answer handed out earlier is not changed by later lookups (one map, a
// history of lookups — the way one `crd write` run uses it).
func VerifC16LookupHistory() {
	m := verifBuiltinMap()
	n := vf.Param("C16.history", 2)
	var results [][]Attribute
	var symbols []string
	for i := 0; i < n; i++ {
		c := verifChords[vf.NondetIntRange("chord", 0, len(verifChords)-1)]
		sym := c.Meta.Display
		if vf.NondetIntRange("byName", 0, 1) == 1 {
			sym = c.Name
		}
		got, ok := m.GetChordAttributes(sym)
		vf.Assert("lookup-succeeds", ok)
		vf.Assert("lookup-independent-of-history", verifSameNames(verifAttrNames(got), verifRefNames(sym, 0)))
		results = append(results, got)
		symbols = append(symbols, sym)
		for j := range results {
			vf.Assert("earlier-answers-unchanged-by-later-lookups", verifSameNames(verifAttrNames(results[j]), verifRefNames(symbols[j], 0)))
		}
	}
	vf.Reach("end")
}

// VerifC12BuildOrder: which definition a symbol resolves to does not depend on Go's map
// iteration order, also when a user chord's display symbol collides with another chord's
// symbol or name (later definitions win, every run).
func VerifC12BuildOrder() {
	users, perr := ParseChords([]byte("- name: Quartal\n  meta:\n    display: sus4\n  attributes: [Perfect1, Perfect4, Minor7]\n" +
		"- name: m7\n  meta:\n    display: qm\n  attributes: [Perfect1, Perfect5]\n" +
		"- name: Fresh\n  meta:\n    display: MinorTriad\n  attributes: [Perfect1]\n"))
	vf.Assert("user-file-parses", perr == nil && len(users) == 3)
	build := func() []string {
		b := NewBuilder()
		for _, a := range verifAttrs {
			b.Attribute(a)
		}
		for _, c := range verifChords {
			b.Chord(c)
		}
		for _, c := range users {
			b.Chord(c)
		}
		m, err := b.Build()
		if err != nil {
			return []string{"error"}
		}
		var out []string
		for _, sym := range []string{"sus4", "SuspendedFourth", "Quartal", "m7", "qm", "MinorSeventh", "MinorTriad", "m", "Fresh", "7sus4"} {
			c, ok := m.GetChord(sym)
			as, _ := m.GetChordAttributes(sym)
			out = append(out, fmt.Sprintf("%s=%s/%v/%d", sym, c.Name, ok, len(as)))
		}
		return out
	}
	ref := build()
	vf.Assert("later-definition-wins", ref[0] == "sus4=Quartal/true/3" && ref[3] == "m7=m7/true/2")
	reps := 1
	if vf.Native() {
		reps = 40
	}
	for i := 0; i < reps; i++ {
		vf.NondetMapOrder(true)
		got := build()
		vf.NondetMapOrder(false)
		vf.Assert("dictionary-independent-of-map-order", verifSameNames(ref, got))
	}
	vf.Reach("end")
}

// verifBuiltinNames: the attribute names of a built-in chord, parent first, read off the raw
// definitions (the YAML data) by walking `extends` — not through Map.GetChordAttributes.
func verifBuiltinNames(name string, depth int) []string {
	if depth > 10 {
		return nil
	}
	for _, c := range verifChords {
		if c.Name == name {
			var out []string
			if c.Extends != "" {
				out = append(out, verifBuiltinNames(c.Extends, depth+1)...)
			}
			return append(out, c.Attributes...)
		}
	}
	return nil
}
