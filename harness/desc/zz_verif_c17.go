package desc

import (
	"github.com/berquerant/crd/astconv"
	"github.com/berquerant/crd/input/ast"
	"github.com/berquerant/crd/op"
	"github.com/berquerant/crd/play"
	vf "github.com/berquerant/crd/zz_verif"
	"github.com/berquerant/crd/zz_verif/crdx"
	"github.com/berquerant/crd/zz_verif/spec"
)

var verifDict = crdx.BuiltinDictionary()

// reference harmonisation (E9): interval sets above the root, per scale degree
var (
	verifMajorTriads   = [7][]int{{0, 4, 7}, {0, 3, 7}, {0, 3, 7}, {0, 4, 7}, {0, 4, 7}, {0, 3, 7}, {0, 3, 6}}
	verifMinorTriads   = [7][]int{{0, 3, 7}, {0, 3, 6}, {0, 4, 7}, {0, 3, 7}, {0, 3, 7}, {0, 4, 7}, {0, 4, 7}}
	verifMajorSevenths = [7][]int{{0, 4, 7, 11}, {0, 3, 7, 10}, {0, 3, 7, 10}, {0, 4, 7, 11}, {0, 4, 7, 10}, {0, 3, 7, 10}, {0, 3, 6, 10}}
	verifMinorSevenths = [7][]int{{0, 3, 7, 10}, {0, 3, 6, 10}, {0, 4, 7, 11}, {0, 3, 7, 10}, {0, 3, 7, 10}, {0, 4, 7, 11}, {0, 4, 7, 10}}
)

// VerifC17Diatonic: every diatonic chord listed for a key is on the right scale note, has
// the right quality, is valid crd notation, and — converted in that key and played in that
// key — sounds only notes of the key's scale.
func VerifC17Diatonic() {
	key, kl, ka, kminor := crdx.SupportedKey("k")
	scale, err := op.NewScale(key)
	vf.Assume(err == nil)
	info := NewKey().Describe(scale)
	i := vf.NondetIntRange("position", 0, 6)
	seventh := vf.NondetIntRange("seventh", 0, 1) == 1
	dc := info.Diatonic.Triads[i]
	want := verifMajorTriads[i]
	switch {
	case seventh && kminor:
		dc, want = info.Diatonic.Sevenths[i], verifMinorSevenths[i]
	case seventh:
		dc, want = info.Diatonic.Sevenths[i], verifMajorSevenths[i]
	case kminor:
		want = verifMinorTriads[i]
	}
	sig := spec.Signature(kl, ka, kminor)
	// on the i-th scale note
	vf.Assert("listed-on-the-scale-notes-in-order", dc.Note != nil && crdx.Letter(dc.Note.Name) == (kl+i)%7 &&
		crdx.AccNum(dc.Note.Accidental) == spec.AccidentalInKey((kl+i)%7, sig))
	// written in crd's own notation
	text := dc.String() + "[1]"
	tree, perr := ast.ZzParseString(text)
	vf.Assert("listed-chord-is-valid-chord-text", perr == nil && tree != nil && len(tree.List) == 1)
	if perr != nil || tree == nil || len(tree.List) != 1 {
		return
	}
	typ, cerr := astconv.NewASTClassifier().Classify(tree)
	vf.Assert("listed-chord-is-note-name-notation", cerr == nil && typ == astconv.SyllableAST)
	inst, verr := astconv.NewSyllableASTConverter(scale).Convert(tree.List[0])
	vf.Assert("listed-chord-converts-in-its-key", verr == nil && inst != nil && inst.Chord != nil)
	if verr != nil || inst == nil || inst.Chord == nil {
		return
	}
	rec, ok := verifDict.Map.GetChord(inst.Chord.Chord)
	vf.Assert("listed-chord-symbol-is-in-the-dictionary", ok)
	if !ok {
		return
	}
	c := op.NewChord(inst.Chord.Degree, rec, inst.Chord.Base)
	pitches, aerr := play.NewKey(key, verifDict.Map).Apply(c)
	vf.Assert("listed-chord-is-playable", aerr == nil && len(pitches) == len(want)+1)
	if aerr != nil {
		return
	}
	// scale pitch classes by the reference
	inScale := map[int]bool{}
	pc := spec.PitchClass(kl, ka)
	for s := 0; s < 7; s++ {
		inScale[pc] = true
		pc = (pc + spec.Step(kminor, s)) % 12
	}
	rootPC := (spec.PitchClass(kl, ka) + func() int {
		d := 0
		for s := 0; s < i; s++ {
			d += spec.Step(kminor, s)
		}
		return d
	}()) % 12
	wantPC := map[int]bool{}
	for _, iv := range want {
		wantPC[(rootPC+iv)%12] = true
	}
	gotPC := map[int]bool{}
	for _, p := range pitches {
		vf.Assert("sounds-only-notes-of-the-scale", inScale[int(p)%12])
		gotPC[int(p)%12] = true
	}
	same := len(gotPC) == len(wantPC)
	for k := range wantPC {
		same = same && gotPC[k]
	}
	vf.Assert("has-the-quality-of-the-harmonisation", same)
	vf.Reach("end")
}

// VerifC13Describe: what `info key describe` reports for a key — after the whole report has
// been assembled — is that key's scale: each letter once from the tonic, the conventional
// signature, the altered notes the first n of the order of sharps / flats.
func VerifC13Describe() {
	key, kl, ka, kminor := crdx.SupportedKey("k")
	scale, err := op.NewScale(key)
	vf.Assume(err == nil)
	info := NewKey().Describe(scale)
	sig := spec.Signature(kl, ka, kminor)
	vf.Assert("described-scale-is-present", info.Scale != nil)
	if info.Scale == nil {
		return
	}
	for i := 0; i < 7; i++ {
		n := info.Scale.Notes[i]
		vf.Assert("described-scale-has-its-own-notes", n != nil && crdx.Letter(n.Name) == (kl+i)%7 && crdx.AccNum(n.Accidental) == spec.AccidentalInKey((kl+i)%7, sig))
	}
	vf.Assert("described-signature", info.Scale.Sharp == vf.Ite(sig > 0, sig, 0) && info.Scale.Flat == vf.Ite(sig < 0, -sig, 0) && info.Scale.Key == key)
	vf.Reach("end")
}
