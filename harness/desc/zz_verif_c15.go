package desc

import (
	"github.com/berquerant/crd/note"
	vf "github.com/berquerant/crd/zz_verif"
	"github.com/berquerant/crd/zz_verif/crdx"
	"github.com/berquerant/crd/zz_verif/spec"
)

// VerifC15Describe: `info attr describe` / `info chord describe` report, for every root and
// every dictionary attribute, the interval's size, its size within the octave, and the note
// root + interval with its octave offset.
func VerifC15Describe() {
	ai := vf.NondetIntRange("attr", 0, len(verifDict.Attrs)-1)
	a := verifDict.Attrs[ai]
	rl := vf.NondetIntRange("root.letter", 0, 6)
	ra := vf.NondetIntRange("root.acc", -1, 1)
	sharp := vf.NondetIntRange("sharp", 0, 1) == 1
	accs := [3]note.Accidental{note.Flat, note.Natural, note.Sharp}
	root := note.NewNote(crdx.Name(rl), accs[ra+1])
	info, err := NewAttribute(verifDict.Map).Describe(a.Name, root, sharp)
	vf.Assert("dictionary-attribute-can-be-described", err == nil && info != nil)
	if err != nil || info == nil {
		return
	}
	size, exists := spec.IntervalSize(a.Degree.Value, crdx.QualityCode(a.Degree.Name))
	vf.Assert("attribute-is-an-interval", exists || a.Degree.Value == 1)
	vf.Assert("reported-size", int(info.Semitone) == size)
	vf.Assert("reported-size-within-octave", int(info.SemitoneWithoutOctave) == ((size%12)+12)%12)
	nat := [7]int{0, 2, 4, 5, 7, 9, 11}
	total := nat[rl] + ra + size
	so := ((total % 12) + 12) % 12
	gl := crdx.Letter(info.Applied.Name)
	ga := map[note.Accidental]int{note.Natural: 0, note.Sharp: 1, note.Flat: -1}[info.Applied.Accidental]
	vf.Assert("applied-note-pitch-class", gl >= 0 && nat[gl]+ga == so)
	vf.Assert("applied-note-octave-offset", int(info.OctaveDiff) == (total-so)/12)
	// spelled natural when possible, otherwise with the accidental that was asked for —
	// whatever the root's own accidental is
	white := so == 0 || so == 2 || so == 4 || so == 5 || so == 7 || so == 9 || so == 11
	if white {
		vf.Assert("spelled-natural-when-possible", ga == 0)
	} else {
		vf.Assert("otherwise-the-requested-accidental", ga == map[bool]int{true: 1, false: -1}[sharp])
	}
	vf.Assert("root-echoed", info.Root == root)
	// chord describe lists exactly the chord's attributes, each described the same way
	ci := vf.NondetIntRange("chord", 0, vf.Param("C15.chords", 4)-1)
	sym := verifDict.Symbols[(ci*11)%len(verifDict.Symbols)]
	cinfo, cerr := NewChord(verifDict.Map, NewAttribute(verifDict.Map)).Describe(sym, root, sharp)
	want, _ := verifDict.RefAttributes(sym, 0)
	vf.Assert("chord-describe-lists-the-definition", cerr == nil && cinfo != nil && len(cinfo.Attributes) == len(want))
	if cerr == nil && cinfo != nil && len(cinfo.Attributes) == len(want) {
		for i := range want {
			vf.Assert("chord-describe-attribute-order", cinfo.Attributes[i].Attribute.Name == want[i].Name)
			// each listed note is what `attr describe` says for the same root and preference
			one, oerr := NewAttribute(verifDict.Map).Describe(want[i].Name, root, sharp)
			vf.Assert("chord-describe-agrees-with-attr-describe", oerr == nil && one != nil && cinfo.Attributes[i].Applied == one.Applied && cinfo.Attributes[i].OctaveDiff == one.OctaveDiff && cinfo.Attributes[i].Semitone == one.Semitone)
		}
	}
	vf.Reach("end")
}

// VerifC15DescribeHistory: one describer asked twice (a library user, or a command that lists
// several things in one run) answers the second question as a fresh describer would: another
// preference, another root or another attribute before it changes nothing.
func VerifC15DescribeHistory() {
	accs := [3]note.Accidental{note.Flat, note.Natural, note.Sharp}
	pick := func(tag string) (string, note.Note, bool) {
		a := verifDict.Attrs[vf.NondetIntRange(tag+"attr", 0, len(verifDict.Attrs)-1)]
		rl := vf.NondetIntRange(tag+"root.letter", 0, 6)
		ra := vf.NondetIntRange(tag+"root.acc", -1, 1)
		return a.Name, note.NewNote(crdx.Name(rl), accs[ra+1]), vf.NondetIntRange(tag+"sharp", 0, 1) == 1
	}
	n2, r2, s2 := pick("second.")
	// the first question: the same with the other preference, or with another root or attribute
	n1, r1, s1 := n2, r2, !s2
	switch vf.NondetIntRange("first-differs-in", 0, 2) {
	case 1:
		r1 = note.NewNote(crdx.Name(vf.NondetIntRange("first.root.letter", 0, 6)), accs[1])
		s1 = s2
	case 2:
		n1 = verifDict.Attrs[vf.NondetIntRange("first.attr", 0, len(verifDict.Attrs)-1)].Name
		s1 = s2
	}
	d := NewAttribute(verifDict.Map)
	_, err1 := d.Describe(n1, r1, s1)
	got, err2 := d.Describe(n2, r2, s2)
	want, werr := NewAttribute(verifDict.Map).Describe(n2, r2, s2)
	vf.Assert("describes", err1 == nil && err2 == nil && werr == nil && got != nil && want != nil)
	if got == nil || want == nil {
		return
	}
	vf.Assert("second-answer-as-from-a-fresh-describer", got.Applied == want.Applied && got.OctaveDiff == want.OctaveDiff && got.Semitone == want.Semitone && got.SemitoneWithoutOctave == want.SemitoneWithoutOctave && got.Root == want.Root)
	if n1 != n2 || r1 != r2 {
		vf.Reach("end")
		return
	}
	// the same through a chord describer built on one attribute describer
	sym := verifDict.Symbols[(vf.NondetIntRange("chord", 0, 3)*11)%len(verifDict.Symbols)]
	cd := NewChord(verifDict.Map, NewAttribute(verifDict.Map))
	_, cerr1 := cd.Describe(sym, r2, !s2)
	cgot, cerr2 := cd.Describe(sym, r2, s2)
	cwant, cwerr := NewChord(verifDict.Map, NewAttribute(verifDict.Map)).Describe(sym, r2, s2)
	vf.Assert("chord-describes", cerr1 == nil && cerr2 == nil && cwerr == nil && cgot != nil && cwant != nil && len(cgot.Attributes) == len(cwant.Attributes))
	if cgot != nil && cwant != nil && len(cgot.Attributes) == len(cwant.Attributes) {
		for i := range cwant.Attributes {
			vf.Assert("chord-second-answer-as-from-a-fresh-describer", cgot.Attributes[i].Applied == cwant.Attributes[i].Applied && cgot.Attributes[i].OctaveDiff == cwant.Attributes[i].OctaveDiff)
		}
	}
	vf.Reach("end")
}
