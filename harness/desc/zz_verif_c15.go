package desc

import (
	"github.com/berquerant/crd/note"
	vf "github.com/berquerant/crd/zz_verif"
	"github.com/berquerant/crd/zz_verif/crdx"
	"github.com/berquerant/crd/zz_verif/spec"
)

// VerifC15Describe: `info attr describe` / `info chord describe` report, for every root and
// every dictionary attribute, the interval's size, its size within the octave, and the note
// root + interval with its octave offset.
func VerifC15Describe() {
	ai := vf.NondetIntRange("attr", 0, len(verifDict.Attrs)-1)
	a := verifDict.Attrs[ai]
	rl := vf.NondetIntRange("root.letter", 0, 6)
	ra := vf.NondetIntRange("root.acc", -1, 1)
	sharp := vf.NondetIntRange("sharp", 0, 1) == 1
	accs := [3]note.Accidental{note.Flat, note.Natural, note.Sharp}
	root := note.NewNote(crdx.Name(rl), accs[ra+1])
	info, err := NewAttribute(verifDict.Map).Describe(a.Name, root, sharp)
	vf.Assert("dictionary-attribute-can-be-described", err == nil && info != nil)
	if err != nil || info == nil {
		return
	}
	size, exists := spec.IntervalSize(a.Degree.Value, crdx.QualityCode(a.Degree.Name))
	vf.Assert("attribute-is-an-interval", exists || a.Degree.Value == 1)
	vf.Assert("reported-size", int(info.Semitone) == size)
	vf.Assert("reported-size-within-octave", int(info.SemitoneWithoutOctave) == ((size%12)+12)%12)
	nat := [7]int{0, 2, 4, 5, 7, 9, 11}
	total := nat[rl] + ra + size
	so := ((total % 12) + 12) % 12
	gl := crdx.Letter(info.Applied.Name)
	ga := map[note.Accidental]int{note.Natural: 0, note.Sharp: 1, note.Flat: -1}[info.Applied.Accidental]
	vf.Assert("applied-note-pitch-class", gl >= 0 && nat[gl]+ga == so)
	vf.Assert("applied-note-octave-offset", int(info.OctaveDiff) == (total-so)/12)
	// spelled natural when possible, otherwise with the accidental that was asked for —
	// whatever the root's own accidental is
	white := so == 0 || so == 2 || so == 4 || so == 5 || so == 7 || so == 9 || so == 11
	if white {
		vf.Assert("spelled-natural-when-possible", ga == 0)
	} else {
		vf.Assert("otherwise-the-requested-accidental", ga == map[bool]int{true: 1, false: -1}[sharp])
	}
	vf.Assert("root-echoed", info.Root == root)
	// chord describe lists exactly the chord's attributes, each described the same way
	ci := vf.NondetIntRange("chord", 0, vf.Param("C15.chords", 4)-1)
	sym := verifDict.Symbols[(ci*11)%len(verifDict.Symbols)]
	cinfo, cerr := NewChord(verifDict.Map, NewAttribute(verifDict.Map)).Describe(sym, root, sharp)
	want, _ := verifDict.RefAttributes(sym, 0)
	vf.Assert("chord-describe-lists-the-definition", cerr == nil && cinfo != nil && len(cinfo.Attributes) == len(want))
	if cerr == nil && cinfo != nil && len(cinfo.Attributes) == len(want) {
		for i := range want {
			vf.Assert("chord-describe-attribute-order", cinfo.Attributes[i].Attribute.Name == want[i].Name)
			// each listed note is what `attr describe` says for the same root and preference
			one, oerr := NewAttribute(verifDict.Map).Describe(want[i].Name, root, sharp)
			vf.Assert("chord-describe-agrees-with-attr-describe", oerr == nil && one != nil && cinfo.Attributes[i].Applied == one.Applied && cinfo.Attributes[i].OctaveDiff == one.OctaveDiff && cinfo.Attributes[i].Semitone == one.Semitone)
		}
	}
	vf.Reach("end")
}
