package play

import (
	"io"

	"github.com/berquerant/crd/input"
	"github.com/berquerant/crd/note"
	"github.com/berquerant/crd/op"
	"github.com/berquerant/crd/util"
	vf "github.com/berquerant/crd/zz_verif"
	"github.com/berquerant/crd/zz_verif/crdx"
	"github.com/berquerant/crd/zz_verif/spec"
)

const (
	vcNote = iota
	vcRest
	vcTempo
	vcMeter
	vcKey
	vcText
	vcLyric
	vcMarker
	vcClose
)

type verifCall struct {
	kind    int
	value   float64
	vel     uint8
	keys    []uint8
	bpm     int
	num     uint8
	den     uint8
	key     uint8
	isMajor bool
	cnt     uint8
	isFlat  bool
	text    string
}

// verifRec is a recording midix.Writer.
type verifRec struct {
	calls []verifCall
}

func (r *verifRec) Note(value float64, velocity uint8, key ...uint8) error {
	r.calls = append(r.calls, verifCall{kind: vcNote, value: value, vel: velocity, keys: append([]uint8{}, key...)})
	return nil
}
func (r *verifRec) Tempo(bpm int) { r.calls = append(r.calls, verifCall{kind: vcTempo, bpm: bpm}) }
func (r *verifRec) Meter(num, denom uint8) {
	r.calls = append(r.calls, verifCall{kind: vcMeter, num: num, den: denom})
}
func (r *verifRec) Key(key uint8, isMajor bool, num uint8, isFlat bool) {
	r.calls = append(r.calls, verifCall{kind: vcKey, key: key, isMajor: isMajor, cnt: num, isFlat: isFlat})
}
func (r *verifRec) Text(text string) { r.calls = append(r.calls, verifCall{kind: vcText, text: text}) }
func (r *verifRec) Lyric(text string) {
	r.calls = append(r.calls, verifCall{kind: vcLyric, text: text})
}
func (r *verifRec) Marker(text string) {
	r.calls = append(r.calls, verifCall{kind: vcMarker, text: text})
}
func (r *verifRec) Close() { r.calls = append(r.calls, verifCall{kind: vcClose}) }
func (r *verifRec) Rest(value float64) {
	r.calls = append(r.calls, verifCall{kind: vcRest, value: value})
}
func (r *verifRec) WriteTo(out io.Writer) (int64, error) { return 0, nil }

func (r *verifRec) count(kind int) int {
	n := 0
	for _, c := range r.calls {
		if c.kind == kind {
			n++
		}
	}
	return n
}

func (r *verifRec) first(kind int) *verifCall {
	for i := range r.calls {
		if r.calls[i].kind == kind {
			return &r.calls[i]
		}
	}
	return nil
}

var verifDynamics = [7]op.DynamicSign{op.UnknownDynamicSign, op.Pianissimo, op.Piano, op.MezzoPiano, op.MezzoForte, op.Forte, op.Fortissimo}

// verifSymbolicArgs builds a midiArgs in an arbitrary state: every cell has an arbitrary
// value and an arbitrary "needs emitting" flag. With focus != 0 only the focused setting's
// flag is arbitrary, the others are clean (their values stay arbitrary).
func verifSymbolicArgs(focus int) (a *midiArgs, kl, ka int, kminor bool) {
	key, kl, ka, kminor := crdx.SymbolicListedKey("st.key.")
	bpm := vf.NondetUint("st.bpm")
	num, den := vf.NondetUint("st.num"), vf.NondetUint("st.den")
	dyn := vf.NondetInt("st.dyn")
	vf.Assume(1 <= dyn)
	vf.Assume(dyn <= 6)
	dirty := func(name string, f int) bool {
		if focus != 0 && focus != f {
			return false
		}
		return vf.NondetBool(name)
	}
	a = &midiArgs{
		bpm:      util.ZzOptState(op.BPM(bpm), dirty("st.bpm.dirty", 1)),
		meter:    util.ZzOptState(op.Meter{Rat: util.NewRat(num, den)}, dirty("st.meter.dirty", 2)),
		velocity: util.ZzOptState(verifDynamics[dyn], dirty("st.vel.dirty", 4)),
		key:      util.ZzOptState(key, dirty("st.key.dirty", 3)),
		meta:     util.ZzOptState(op.Meta(map[string]string{}), dirty("st.meta.dirty", 5)),
	}
	return
}

func verifAnd(a, b bool) bool { return vf.Ite(a, b, false) }
func verifOr(a, b bool) bool  { return vf.Ite(a, true, b) }

// VerifC07SettingsStep: one instance from an arbitrary settings state: an event is emitted
// for a setting iff the instance sets it or it was still pending; every emitted event carries
// the value in force; the settings persist.
func VerifC07SettingsStep() {
	vf.Summarise("github.com/berquerant/crd/zz_verif/spec.*")
	vf.Summarise("github.com/berquerant/crd/zz_verif/crdx.*")
	vf.Summarise("(github.com/berquerant/crd/op.Key).Semitone")
	focus := vf.Param("C07.focus", 0)
	a, kl, ka, kminor := verifSymbolicArgs(focus)
	oldBPM, oldMeter, oldKeyL, oldKeyA, oldKeyM := a.bpm.Unwrap(), a.meter.Unwrap(), kl, ka, kminor
	oldVel := a.getVelocity()
	var inst op.Instance
	has := func(name string, f int) bool {
		if focus != 0 && focus != f {
			return false
		}
		return vf.NondetIntRange(name, 0, 1) == 1
	}
	hasBPM, hasMeter, hasKey, hasVel := has("in.hasBPM", 1), has("in.hasMeter", 2), has("in.hasKey", 3), has("in.hasVel", 4)
	newBPM := op.BPM(vf.NondetUint("in.bpm"))
	newMeter := op.Meter{Rat: util.NewRat(vf.NondetUint("in.num"), vf.NondetUint("in.den"))}
	nd := vf.NondetInt("in.dyn")
	vf.Assume(1 <= nd)
	vf.Assume(nd <= 6)
	newDyn := verifDynamics[nd]
	newKey, nl, na, nminor := crdx.SymbolicListedKey("in.key.")
	if hasBPM {
		inst.BPM = &newBPM
	}
	if hasMeter {
		inst.Meter = &newMeter
	}
	if hasKey {
		inst.Key = &newKey
	}
	if hasVel {
		inst.Velocity = &newDyn
	}
	// the flags before the step, observed without disturbing them
	wasBPMDirty, wasMeterDirty, wasKeyDirty := verifDirty(a)

	rec := &verifRec{}
	a.update(inst)
	a.writeWhenUpdated(rec)

	// tempo
	wantTempo := verifOr(hasBPM, wasBPMDirty)
	vf.Assert("tempo-emitted-iff-set-or-pending", rec.count(vcTempo) == vf.Ite(wantTempo, 1, 0))
	forceBPM := oldBPM
	if hasBPM {
		forceBPM = newBPM
	}
	if c := rec.first(vcTempo); c != nil {
		vf.Assert("tempo-event-carries-value-in-force", c.bpm == int(forceBPM))
	}
	vf.Assert("tempo-persists", a.bpm.Unwrap() == forceBPM)
	// meter
	wantMeter := verifOr(hasMeter, wasMeterDirty)
	vf.Assert("meter-emitted-iff-set-or-pending", rec.count(vcMeter) == vf.Ite(wantMeter, 1, 0))
	forceMeter := oldMeter
	if hasMeter {
		forceMeter = newMeter
	}
	if c := rec.first(vcMeter); c != nil {
		vf.Assert("meter-event-carries-value-in-force", verifAnd(c.num == uint8(forceMeter.Num), c.den == uint8(forceMeter.Denom)))
	}
	vf.Assert("meter-persists", a.meter.Unwrap() == forceMeter)
	// key signature
	wantKey := verifOr(hasKey, wasKeyDirty)
	vf.Assert("key-emitted-iff-set-or-pending", rec.count(vcKey) == vf.Ite(wantKey, 1, 0))
	fl, fa, fm := oldKeyL, oldKeyA, oldKeyM
	if hasKey {
		fl, fa, fm = nl, na, nminor
	}
	if c := rec.first(vcKey); c != nil {
		sig := spec.Signature(fl, fa, fm)
		vf.Assert("key-signature-mode", c.isMajor == !fm)
		vf.Assert("key-signature-count", int(c.cnt) == vf.Ite(sig < 0, -sig, sig))
		vf.Assert("key-signature-flat-or-sharp", verifOr(sig == 0, c.isFlat == (sig < 0)))
	}
	k := a.getKey()
	vf.Assert("key-in-force-persists", verifAnd(verifAnd(crdx.LetterOf(k.Name) == fl, crdx.AccNumOf(k.Accidental) == fa), k.Minor == fm))
	// dynamics
	wantVel := oldVel
	if hasVel {
		wantVel = uint8(newDyn.Velocity())
	}
	vf.Assert("dynamic-in-force-sets-velocity", a.getVelocity() == wantVel)
	// nothing else, and a second call emits nothing (settings are emitted once)
	vf.Assert("only-setting-events", len(rec.calls) == rec.count(vcTempo)+rec.count(vcMeter)+rec.count(vcKey))
	rec2 := &verifRec{}
	a.writeWhenUpdated(rec2)
	vf.Assert("settings-emitted-once", len(rec2.calls) == 0)
	vf.Reach("end")
}

// verifDirty reads the three "needs emitting" flags without changing the state.
func verifDirty(a *midiArgs) (bpm, meter, key bool) {
	probe := *a.bpm
	probe.WhenUpdated(func(op.BPM) { bpm = true })
	probeM := *a.meter
	probeM.WhenUpdated(func(op.Meter) { meter = true })
	probeK := *a.key
	probeK.WhenUpdated(func(op.Key) { key = true })
	return
}

// VerifC07Texts: txt / lic / mrk metadata become text / lyric / marker events with the
// same bytes, only when present and non-empty; arbitrary bytes (incl. invalid UTF-8).
func VerifC07Texts() {
	a := newMidiArgs()
	a.writeWhenUpdated(&verifRec{}) // consume the initial state
	m := op.Meta(map[string]string{})
	var txt, lic, mrk string
	nt := vf.NondetIntRange("txt.len", -1, vf.Param("C07.maxText", 3))
	nl := vf.NondetIntRange("lic.len", -1, 1)
	nm := vf.NondetIntRange("mrk.len", -1, 1)
	if nt >= 0 {
		txt = vf.NondetString("txt", nt)
		m[input.MetaTextKey] = txt
	}
	if nl >= 0 {
		lic = vf.NondetString("lic", nl)
		m[input.MetaLyricKey] = lic
	}
	if nm >= 0 {
		mrk = vf.NondetString("mrk", nm)
		m[input.MetaMarkerKey] = mrk
	}
	m["other"] = "ignored"
	rec := &verifRec{}
	a.update(op.Instance{Meta: &m})
	a.writeWhenUpdated(rec)
	vf.Assert("text-iff-nonempty", rec.count(vcText) == vf.Ite(nt > 0, 1, 0))
	vf.Assert("lyric-iff-nonempty", rec.count(vcLyric) == vf.Ite(nl > 0, 1, 0))
	vf.Assert("marker-iff-nonempty", rec.count(vcMarker) == vf.Ite(nm > 0, 1, 0))
	if c := rec.first(vcText); c != nil {
		vf.Assert("text-bytes-exact", c.text == txt)
	}
	if c := rec.first(vcLyric); c != nil {
		vf.Assert("lyric-bytes-exact", c.text == lic)
	}
	if c := rec.first(vcMarker); c != nil {
		vf.Assert("marker-bytes-exact", c.text == mrk)
	}
	vf.Assert("only-text-events", len(rec.calls) == rec.count(vcText)+rec.count(vcLyric)+rec.count(vcMarker))
	// an instance without meta does not repeat the texts
	rec2 := &verifRec{}
	a.update(op.Instance{})
	a.writeWhenUpdated(rec2)
	vf.Assert("texts-not-repeated", len(rec2.calls) == 0)
	vf.Reach("end")
}

// VerifC07Dynamics: pp < p < mp < mf < f < ff map to strictly increasing velocities <= 127.
func VerifC07Dynamics() {
	i := vf.NondetIntRange("i", 1, 5)
	lo, hi := verifDynamics[i].Velocity(), verifDynamics[i+1].Velocity()
	vf.Assert("louder-never-quieter", lo < hi)
	vf.Assert("velocity-is-a-data-byte", hi <= 127 && lo >= 1)
	names := [7]string{"", "pp", "p", "mp", "mf", "f", "ff"}
	vf.Assert("dynamic-names", op.NewDynamicSign(names[i]) == verifDynamics[i] && op.NewDynamicSign(names[i+1]) == verifDynamics[i+1])
	vf.Reach("end")
}

// VerifC07Defaults: a fresh writer states 100 bpm, 4/4 and C major before the first note.
func VerifC07Defaults() {
	rec := &verifRec{}
	w := NewWriter(verifDict.Map, func(k op.Key) Key { return NewKey(k, verifDict.Map) })
	rec0, _ := verifDict.Map.GetChord("")
	c := op.NewChord(note.Degree{Value: 1, Name: note.PerfectDegree}, rec0, nil)
	err := w.Write(rec, []op.Instance{{Chord: &c, Values: []note.Value{note.MustNewValue(1, 1)}}})
	vf.Assert("write-succeeds", err == nil)
	vf.Assert("default-events-first", len(rec.calls) >= 4 && rec.calls[0].kind != vcNote && rec.calls[1].kind != vcNote && rec.calls[2].kind != vcNote && rec.calls[3].kind == vcNote)
	t, m, k := rec.first(vcTempo), rec.first(vcMeter), rec.first(vcKey)
	vf.Assert("default-tempo-100", t != nil && t.bpm == 100)
	vf.Assert("default-meter-4-4", m != nil && m.num == 4 && m.den == 4)
	vf.Assert("default-key-C-major", k != nil && k.isMajor && k.cnt == 0)
	vf.Assert("default-velocity-mp", rec.calls[3].vel == uint8(op.MezzoPiano.Velocity()))
	vf.Assert("closed-once-at-end", rec.count(vcClose) == 1 && rec.calls[len(rec.calls)-1].kind == vcClose)
	vf.Reach("end")
}
