package play

import (
	"github.com/berquerant/crd/note"
	"github.com/berquerant/crd/op"
	vf "github.com/berquerant/crd/zz_verif"
	"github.com/berquerant/crd/zz_verif/crdx"
	"github.com/berquerant/crd/zz_verif/spec"
)

var verifDict = crdx.BuiltinDictionary()

// verifCount counts occurrences of x in xs without branching.
func verifCount(xs []uint8, x uint8) int {
	n := 0
	for _, y := range xs {
		n += vf.Ite(y == x, 1, 0)
	}
	return n
}

func verifSameMultiset(label string, a, b []uint8) {
	vf.Assert(label+":same-number-of-notes", len(a) == len(b))
	if len(a) != len(b) {
		return
	}
	for _, x := range a {
		vf.Assert(label+":same-pitches", verifCount(a, x) == verifCount(b, x))
	}
}

// verifSamePitches asserts multiset equality; the cheap element-wise comparison is tried
// first and the order-insensitive count is only needed where it does not hold.
func verifSamePitches(label string, got, want []uint8) {
	vf.Assert(label+":same-number-of-notes", len(got) == len(want))
	if len(got) != len(want) {
		return
	}
	same := true
	for i := range got {
		same = vf.Ite(got[i] == want[i], same, false)
	}
	if same {
		vf.Reach("same-order")
		return
	}
	vf.Reach("other-order")
	verifSameMultiset(label, got, want)
}

// VerifC01Pitch: Key.Apply sounds exactly root+bass-12 and root+each interval of the
// symbol's definition (inherited ones included), root = 60 + tonic + degree.
func VerifC01Pitch() {
	vf.Summarise("(github.com/berquerant/crd/note.Degree).Semitone")
	vf.Summarise("(github.com/berquerant/crd/op.Key).Semitone")
	vf.Summarise("github.com/berquerant/crd/zz_verif/spec.*")
	key, letter, acc, _ := crdx.SymbolicListedKey("k")
	maxN := vf.Param("C01.maxDegree", 15)
	n := uint(vf.NondetIntRange("n", 0, maxN)) // case split: keeps the 64-bit div/mod by 7 out of the queries
	q := vf.NondetInt("q")
	vf.Assume(0 <= q)
	vf.Assume(q <= 8)
	// mode 0: full product; 1: every symbol, no bass; 2: every bass, two symbols
	mode := vf.Param("C01.mode", 0)
	hasBass := false
	switch mode {
	case 0:
		hasBass = vf.NondetIntRange("hasBass", 0, 1) == 1
	case 2:
		hasBass = true
	}
	var bass *note.Degree
	bn, bq := uint(1), spec.QPerfect
	if hasBass {
		bn = uint(vf.NondetIntRange("bn", 0, maxN))
		bq = vf.NondetInt("bq")
		vf.Assume(0 <= bq)
		vf.Assume(bq <= 8)
		bass = &note.Degree{Value: bn, Name: crdx.QualityOf(bq)}
	}
	var symbol string
	if mode == 2 {
		symbol = []string{"", "m7"}[vf.NondetIntRange("symbol", 0, 1)]
	} else {
		symbol = verifDict.Symbols[vf.NondetIntRange("symbol", 0, vf.Param("C01.numSymbols", len(verifDict.Symbols))-1)]
	}
	rec, ok := verifDict.Map.GetChord(symbol)
	vf.Assert("dictionary-symbol-resolves", ok)
	c := op.NewChord(note.Degree{Value: n, Name: crdx.QualityOf(q)}, rec, bass)
	got, err := NewKey(key, verifDict.Map).Apply(c)

	dsize, dok := spec.IntervalSize(n, q)
	bsize, bok := spec.IntervalSize(bn, bq)
	attrs, aok := verifDict.RefAttributes(symbol, 0)
	vf.Assert("reference-definition-exists", aok)
	if !vf.Ite(dok, bok, false) {
		// existence of diminished / doubly diminished unison is a don't-care
		dc1 := vf.Ite(q == spec.QDiminished, true, q == spec.QDDiminished) && n == 1
		dc2 := vf.Ite(bq == spec.QDiminished, true, bq == spec.QDDiminished) && bn == 1
		vf.Assert("impossible-interval-is-an-error", vf.Ite(dc1, true, vf.Ite(dc2, true, err != nil)))
		vf.Reach("rejected")
		return
	}
	vf.Assert("real-intervals-are-played", err == nil)
	if err != nil {
		return
	}
	rootRaw := 60 + spec.RawPitch(letter, acc) + dsize
	want := []int{rootRaw + bsize - 12}
	for _, a := range attrs {
		s, sok := spec.IntervalSize(a.Degree.Value, crdx.QualityCode(a.Degree.Name))
		vf.Assert("dictionary-attribute-is-an-interval", sok)
		want = append(want, rootRaw+s)
	}
	// the tonic is the key note in the octave of middle C in scientific pitch notation
	// (Cb4 = 59, B4 = 71): no octave slack
	shift := 0
	inRange := true
	w8 := make([]uint8, len(want))
	for i, x := range want {
		x += shift
		inRange = vf.Ite(x >= 0, vf.Ite(x <= 127, inRange, false), false)
		w8[i] = uint8(x)
	}
	vf.Assume(inRange)
	g8 := make([]uint8, len(got))
	for i, x := range got {
		g8[i] = uint8(x)
	}
	verifSamePitches("pitches", g8, w8)
	vf.Reach("end")
}

// VerifC01ApplyHistory: one Key value applied to a chord and then to another sounds, for the
// second, exactly what a fresh Key sounds for it alone (the dictionary is shared, as in a real
// run): nothing cached from an earlier chord leaks into a later one.
func VerifC01ApplyHistory() {
	ki := vf.NondetIntRange("key", 0, 3)
	key := op.Key{Name: crdx.Name([]int{0, 3, 6, 2}[ki]), Accidental: crdx.Acc([]int{0, 1, -1, -1}[ki]), Minor: ki == 1} // C, F#m, Bb, Eb
	syms := []string{"", "m7", "sus4", "9", "dim7", "add9"}
	pick := func(name string) op.Chord {
		rec, ok := verifDict.Map.GetChord(syms[vf.NondetIntRange(name+".symbol", 0, len(syms)-1)])
		vf.Assert("dictionary-symbol-resolves", ok)
		dn := []uint{1, 4, 7}[vf.NondetIntRange(name+".degree", 0, 2)]
		q := crdx.QualityOf(spec.QPerfect)
		if dn == 7 {
			q = crdx.QualityOf(spec.QMajor)
		}
		var bass *note.Degree
		if vf.NondetIntRange(name+".bass", 0, 1) == 1 {
			bass = &note.Degree{Value: 5, Name: crdx.QualityOf(spec.QPerfect)}
		}
		return op.NewChord(note.Degree{Value: dn, Name: q}, rec, bass)
	}
	first, second := pick("first"), pick("second")
	used := NewKey(key, verifDict.Map)
	used.Apply(first)
	got, gerr := used.Apply(second)
	fresh := crdx.BuiltinDictionary()
	want, werr := NewKey(key, fresh.Map).Apply(second)
	vf.Assert("same-outcome-whatever-was-played-before", (gerr == nil) == (werr == nil))
	if gerr != nil || werr != nil {
		return
	}
	vf.Assert("same-number-of-notes-whatever-was-played-before", len(got) == len(want))
	if len(got) == len(want) {
		for i := range got {
			vf.Assert("same-pitches-whatever-was-played-before", got[i] == want[i])
		}
	}
	vf.Reach("end")
}
