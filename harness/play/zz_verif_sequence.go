package play

import (
	"math"
	"github.com/berquerant/crd/note"
	"github.com/berquerant/crd/op"
	"github.com/berquerant/crd/util"
	vf "github.com/berquerant/crd/zz_verif"
	"github.com/berquerant/crd/zz_verif/crdx"
	"github.com/berquerant/crd/zz_verif/spec"
)

// VerifC01WriteSequence: Write on a short list of chords and rests, each with or without
// its own key / tempo / dynamic: the calls reaching the MIDI writer are exactly, in order,
// the settings of each instance (at its start, before its note or rest — also on rests),
// then the chord played in the key in force (the most recent key at or before it, C at the
// start) with the dynamic in force, or the rest; one Close at the end.
func VerifC01WriteSequence() {
	vf.Summarise("(github.com/berquerant/crd/note.Degree).Semitone")
	vf.Summarise("(github.com/berquerant/crd/op.Key).Semitone")
	vf.Summarise("github.com/berquerant/crd/zz_verif/spec.*")
	vf.Summarise("github.com/berquerant/crd/zz_verif/crdx.*")
	n := vf.NondetIntRange("instances", 1, vf.Param("C01.maxInstances", 3))
	// three or more instances: one fraction, no tempo or dynamic of their own (keys, chords and
	// rests in every combination stay) — the full product would be ~10^6 paths
	small := n >= 3
	insts := make([]op.Instance, n)
	type expect struct {
		kind           int
		keys           []MIDINoteNumber
		vnum, vden     int64 // the exact length in quarter notes
		vel            uint8
		bpm            int
		kl, ka         int
		kminor         bool
	}
	var want []expect
	cl, ca, cm := 0, 0, false
	vel := uint8(op.MezzoPiano.Velocity())
	symbols := []string{"", "m7", "sus4"}
	for i := 0; i < n; i++ {
		var in op.Instance
		// one or two duration fractions; the instance's length is their exact sum, handed
		// over once. The pairs have denominators that do not divide one another.
		fr := [][2][2]uint{{{1, 2}, {1, 3}}, {{2, 3}, {1, 7}}, {{3, 2}, {1, 1}}}[i%3]
		f1 := fr[0]
		in.Values = []note.Value{{Rat: util.NewRat(f1[0], f1[1])}}
		vnum, vden := int64(f1[0]), int64(f1[1])
		if !small && vf.NondetIntRange("fractions", 1, 2) == 2 {
			f2 := fr[1]
			in.Values = append(in.Values, note.Value{Rat: util.NewRat(f2[0], f2[1])})
			vnum, vden = vnum*int64(f2[1])+int64(f2[0])*vden, vden*int64(f2[1])
		}
		hasBPM := !small && vf.NondetIntRange("hasBPM", 0, 1) == 1
		hasKey := vf.NondetIntRange("hasKey", 0, 1) == 1
		hasVel := !small && vf.NondetIntRange("hasVel", 0, 1) == 1
		if hasBPM {
			b := op.BPM(vf.NondetUint("bpm"))
			vf.Assume(b >= 1)
			vf.Assume(uint(b) <= 1000)
			in.BPM = &b
			want = append(want, expect{kind: vcTempo, bpm: int(b)})
		} else if i == 0 {
			want = append(want, expect{kind: vcTempo, bpm: 100})
		}
		if i == 0 {
			want = append(want, expect{kind: vcMeter})
		}
		if hasVel {
			di := vf.NondetInt("dyn")
			vf.Assume(1 <= di)
			vf.Assume(di <= 6)
			d := verifDynamics[di]
			in.Velocity = &d
			vel = uint8(d.Velocity())
		}
		if hasKey {
			// a few keys case-split (the key-signature event forks over crd's key table anyway);
			// every key's pitches are decided by VerifC01Pitch
			// — among them two enharmonic pairs (Cb/B, Ebm/D#m; pieces of one or two instances only,
			// from three instances on the first four keys as measured before): same tonic pitch and mode,
			// different signatures, so anything remembered per pitch-and-mode is put to the test
			ki := vf.NondetIntRange("key", 0, vf.Ite(small, 3, 6))
			l, a, m := []int{2, 3, 0, 5, 6, 2, 1}[ki], []int{-1, 1, -1, 0, 0, -1, 1}[ki], []bool{false, true, false, true, false, true, true}[ki]
			k := op.Key{Name: crdx.Name(l), Accidental: crdx.Acc(a), Minor: m}
			in.Key = &k
			cl, ca, cm = l, a, m
			want = append(want, expect{kind: vcKey, kl: l, ka: a, kminor: m})
		} else if i == 0 {
			want = append(want, expect{kind: vcKey})
		}
		if vf.NondetIntRange("isChord", 0, 1) == 1 {
			// A later chord is either the very chord written before (same symbol, no bass — its
			// degree may coincide too — so that anything remembered per chord is put to the
			// test, above all across a key change) or a different one (another symbol, written
			// over its own root an octave up: base "8", so the bass lands on the root's key and
			// must still get its own note-on).
			si := 1
			var bass *note.Degree
			bassUp := 0
			if i > 0 && vf.NondetIntRange("like-the-first", 0, 1) == 0 {
				si = (i + 1) % 3
				bass = &note.Degree{Value: 8, Name: note.PerfectDegree}
				bassUp = 12
			}
			rec, _ := verifDict.Map.GetChord(symbols[si])
			dn := vf.NondetInt("degree")
			vf.Assume(1 <= dn)
			vf.Assume(dn <= 7)
			names := [8]note.DegreeName{note.UnknownDegree, note.PerfectDegree, note.MajorDegree, note.MajorDegree, note.PerfectDegree, note.PerfectDegree, note.MajorDegree, note.MajorDegree}
			c := op.NewChord(note.Degree{Value: uint(dn), Name: names[dn]}, rec, bass)
			in.Chord = &c
			// the pitches the property demands, from the reference definitions only (nothing
			// of the implementation is consulted): middle C + tonic of the key in force +
			// major-scale size of the degree; "" = 0-4-7, m7 = 0-3-7-10, sus4 = 0-5-7 above it, bass = root an octave down
			root := 60 + spec.RawPitch(cl, ca) + [8]int{0, 0, 2, 4, 5, 7, 9, 11}[dn]
			keys := []MIDINoteNumber{MIDINoteNumber(root - 12 + bassUp)}
			for _, iv := range [][]int{{0, 4, 7}, {0, 3, 7, 10}, {0, 5, 7}}[si] {
				keys = append(keys, MIDINoteNumber(root+iv))
			}
			want = append(want, expect{kind: vcNote, keys: keys, vnum: vnum, vden: vden, vel: vel})
		} else {
			want = append(want, expect{kind: vcRest, vnum: vnum, vden: vden})
		}
		insts[i] = in
	}
	want = append(want, expect{kind: vcClose})
	_, _, _ = cl, ca, cm
	rec := &verifRec{}
	w := NewWriter(verifDict.Map, func(k op.Key) Key { return NewKey(k, verifDict.Map) })
	err := w.Write(rec, insts)
	vf.Assert("write-succeeds", err == nil)
	// match the recorded calls against the expected ones in order; a repeated tempo / meter /
	// key call that restates the value in force is tolerated (redundant but correct)
	forceBPM, forceKeyL, forceKeyA, forceKeyM := -1, 0, 0, false
	wi := 0
	for _, c := range rec.calls {
		if wi < len(want) && c.kind == want[wi].kind {
			e := want[wi]
			wi++
			switch c.kind {
			case vcNote:
				// same multiset of pitches, in whatever order the chord is handed over
				w8 := make([]uint8, len(e.keys))
				for j, x := range e.keys {
					w8[j] = uint8(x)
				}
				verifSamePitches("chord-sounds-in-the-key-in-force", c.keys, w8)
				vf.Assert("chord-length-as-written", verifLengthOK(c.value, e.vnum, e.vden))
				vf.Assert("chord-uses-the-dynamic-in-force", c.vel == e.vel)
			case vcRest:
				vf.Assert("rest-length-as-written", verifLengthOK(c.value, e.vnum, e.vden))
			case vcTempo:
				vf.Assert("tempo-value", c.bpm == e.bpm)
				forceBPM = e.bpm
			case vcMeter:
				vf.Assert("default-meter", c.num == 4 && c.den == 4)
			case vcKey:
				sig := spec.Signature(e.kl, e.ka, e.kminor)
				vf.Assert("key-signature-of-the-key-set", c.isMajor == !e.kminor && int(c.cnt) == vf.Ite(sig < 0, -sig, sig))
				vf.Assert("key-signature-flat-or-sharp-as-the-key-set", verifOr(sig == 0, c.isFlat == (sig < 0)))
				forceKeyL, forceKeyA, forceKeyM = e.kl, e.ka, e.kminor
			}
			continue
		}
		redundant := false
		switch c.kind {
		case vcTempo:
			redundant = forceBPM >= 0 && c.bpm == forceBPM
		case vcMeter:
			redundant = c.num == 4 && c.den == 4
		case vcKey:
			sig := spec.Signature(forceKeyL, forceKeyA, forceKeyM)
			redundant = c.isMajor == !forceKeyM && int(c.cnt) == vf.Ite(sig < 0, -sig, sig)
		}
		vf.Assert("calls-in-order", redundant)
		if !redundant {
			return
		}
	}
	vf.Assert("exactly-the-expected-calls", wi == len(want))
	vf.Reach("end")
}

// verifLengthOK: the value handed to the MIDI writer stands for the written length: at the
// file's 960 ticks per quarter it rounds to a tick count within half a tick of the exact
// rational 960*num/den (how the sum is computed — float by float or exactly — is not prescribed).
func verifLengthOK(value float64, num, den int64) bool {
	t := int64(math.Round(960 * value))
	d := 960*num - t*den
	if d < 0 {
		d = -d
	}
	return 2*d <= den
}
