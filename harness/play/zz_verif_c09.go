package play

import (
	"github.com/berquerant/crd/note"
	"github.com/berquerant/crd/op"
	vf "github.com/berquerant/crd/zz_verif"
	"github.com/berquerant/crd/zz_verif/crdx"
	"github.com/berquerant/crd/zz_verif/spec"
)

// VerifC09WriteNoPanic: Write on short lists of arbitrary (parsed) instances never panics;
// an instance without durations, an unknown chord or a key without a scale is refused with
// an error and nothing of it (or after it) is played.
func VerifC09WriteNoPanic() {
	vf.Summarise("(github.com/berquerant/crd/note.Degree).Semitone")
	n := vf.NondetIntRange("instances", 0, vf.Param("C09.maxInstances", 2))
	insts := make([]op.Instance, n)
	badAt := -1
	// one instance: every value count, symbol, degree 0..9 x 9 quality codes, 42 key spellings;
	// two or more: a reduced alphabet per instance (the product would be ~10^9 paths), chosen
	// so that every kind of nonsense still occurs in every position
	small := n >= 2
	for i := 0; i < n; i++ {
		var in op.Instance
		nv := vf.NondetIntRange("values", 0, map[bool]int{false: 2, true: 1}[small])
		for j := 0; j < nv; j++ {
			num, den := vf.NondetUint("num"), vf.NondetUint("den")
			vf.Assume(num >= 1)
			vf.Assume(num <= 64)
			vf.Assume(den >= 1)
			vf.Assume(den <= 64)
			in.Values = append(in.Values, note.Value{Rat: struct{ Num, Denom uint }{num, den}})
		}
		bad := nv == 0
		if vf.NondetIntRange("isChord", 0, 1) == 1 {
			sym := []string{"", "no-such-chord", "m7"}[vf.NondetIntRange("symbol", 0, map[bool]int{false: 2, true: 1}[small])]
			rec, _ := verifDict.Map.GetChord(sym)
			if sym == "no-such-chord" {
				rec.Name = sym
				bad = true
			}
			dn := uint(vf.NondetIntRange("degree", 0, map[bool]int{false: 9, true: 1}[small]))
			dq := vf.NondetIntRange("quality", 0, map[bool]int{false: 8, true: 2}[small])
			c := op.NewChord(note.Degree{Value: dn, Name: crdx.Quality(dq)}, rec, nil)
			in.Chord = &c
			if _, ok := spec.IntervalSize(dn, dq); !ok && !(dn == 1 && (dq == spec.QDiminished || dq == spec.QDDiminished)) {
				bad = true
			}
		}
		if vf.NondetIntRange("hasKey", 0, 1) == 1 {
			var k op.Key
			var l, a int
			var m bool
			if small {
				// C, Eb minor, Ab minor (no scale), G# (no scale)
				ki := vf.NondetIntRange("key.small", 0, 3)
				l, a, m = []int{0, 2, 5, 4}[ki], []int{0, -1, -1, 1}[ki], []bool{false, true, true, false}[ki]
				k = op.Key{Name: crdx.Name(l), Accidental: crdx.Acc(a), Minor: m}
			} else {
				k, l, a, m = crdx.AnyKey("key.")
			}
			in.Key = &k
			if !spec.HasScale(l, a, m) {
				bad = true
			}
		}
		if bad && badAt < 0 {
			badAt = i
		}
		insts[i] = in
	}
	rec := &verifRec{}
	w := NewWriter(verifDict.Map, func(k op.Key) Key { return NewKey(k, verifDict.Map) })
	err := w.Write(rec, insts)
	if n == 0 {
		vf.Assert("empty-piece-is-refused", err != nil)
	}
	if badAt >= 0 {
		vf.Assert("nonsense-instance-is-refused", err != nil)
		vf.Assert("nothing-played-from-the-bad-instance-on", rec.count(vcNote)+rec.count(vcRest) <= badAt)
		vf.Assert("refused-piece-is-not-finished", rec.count(vcClose) == 0)
		vf.Reach("refused")
	} else if n > 0 {
		vf.Reach("played")
		if err == nil {
			vf.Assert("every-instance-played", rec.count(vcNote)+rec.count(vcRest) == n && rec.count(vcClose) == 1)
		}
	}
	vf.Reach("end")
}
