package play

import (
	"github.com/berquerant/crd/input"
	"github.com/berquerant/crd/note"
	"github.com/berquerant/crd/op"
	vf "github.com/berquerant/crd/zz_verif"
	"github.com/berquerant/crd/zz_verif/crdx"
	"github.com/berquerant/crd/zz_verif/spec"
)

// VerifC05Transpose: the same chord played in two keys sounds the same pitches shifted by
// one constant, congruent to the distance between the tonics.
func VerifC05Transpose() {
	vf.Summarise("(github.com/berquerant/crd/note.Degree).Semitone")
	vf.Summarise("(github.com/berquerant/crd/op.Key).Semitone")
	vf.Summarise("github.com/berquerant/crd/zz_verif/spec.*")
	k1, l1, a1, _ := crdx.SymbolicListedKey("k1.")
	k2, l2, a2, _ := crdx.SymbolicListedKey("k2.")
	n := uint(vf.NondetIntRange("n", 1, vf.Param("C05.maxDegree", 9)))
	q := vf.NondetInt("q")
	vf.Assume(1 <= q)
	vf.Assume(q <= 7)
	symbol := verifDict.Symbols[vf.NondetIntRange("symbol", 0, len(verifDict.Symbols)-1)]
	rec, _ := verifDict.Map.GetChord(symbol)
	var bass *note.Degree
	if vf.NondetIntRange("hasBass", 0, 1) == 1 {
		bass = &note.Degree{Value: 3, Name: note.MajorDegree}
	}
	c := op.NewChord(note.Degree{Value: n, Name: crdx.QualityOf(q)}, rec, bass)
	p1, e1 := NewKey(k1, verifDict.Map).Apply(c)
	p2, e2 := NewKey(k2, verifDict.Map).Apply(c)
	vf.Assert("playable-in-one-key-iff-in-the-other", (e1 == nil) == (e2 == nil))
	if e1 != nil || e2 != nil {
		vf.Reach("rejected")
		return
	}
	vf.Assert("same-number-of-notes", len(p1) == len(p2) && len(p1) >= 2)
	d0 := uint8(p2[0]) - uint8(p1[0])
	for i := range p1 {
		vf.Assert("every-pitch-shifted-by-the-same-amount", uint8(p2[i])-uint8(p1[i]) == d0)
	}
	// the distance between the tonics as notes of the octave of middle C (Cb4 = 59 … B4 = 71)
	dr := spec.RawPitch(l2, a2) - spec.RawPitch(l1, a1)
	vf.Assert("shift-is-the-distance-between-the-tonics", d0 == uint8(dr))
	vf.Reach("end")
}

// VerifC05MetaEcho: `text conv` echoes every {key=…,bpm=…,vel=…,mtr=…} among the metadata of
// the instance as well. Those echoes are texts: the key (tempo, meter, dynamic) in force is what
// the instance's own fields say — the echo may disagree with them after a --key override or a
// hand edit — and a metadata entry never states another setting in the file.
func VerifC05MetaEcho() {
	keys := []string{"C", "D", "Am", "Gb", "F#m", "H", ""}
	a := newMidiArgs()
	a.writeWhenUpdated(&verifRec{}) // consume the initial state
	k0 := a.getKey()
	v0 := a.getVelocity()
	var inst op.Instance
	fieldC := vf.NondetIntRange("key-field", 0, 4) // 0: the instance has no key field
	if fieldC > 0 {
		k, err := op.ParseKey(keys[fieldC-1])
		vf.Assert("key-parses", err == nil)
		inst.Key = &k
	}
	m := op.Meta(map[string]string{})
	echo := keys[vf.NondetIntRange("key-echo", 0, len(keys)-1)]
	if echo != "" {
		m[input.MetaKeyKey] = echo
	}
	if vf.NondetIntRange("other-echoes", 0, 1) == 1 {
		m[input.MetaBPMKey] = "180"
		m[input.MetaVelocityKey] = "ff"
		m[input.MetaMeterKey] = "3/4"
	}
	inst.Meta = &m
	rec := &verifRec{}
	a.update(inst)
	a.writeWhenUpdated(rec)
	want := k0
	if inst.Key != nil {
		want = *inst.Key
	}
	g := a.getKey()
	vf.Assert("key-in-force-is-the-key-field", g.Name == want.Name && g.Accidental == want.Accidental && g.Minor == want.Minor)
	vf.Assert("dynamic-in-force-unchanged-by-echo", a.getVelocity() == v0)
	// (a redundant event restating the setting in force would be harmless; one stating the echo is not)
	if c := rec.first(vcTempo); c != nil {
		vf.Assert("echo-states-no-other-tempo", c.bpm == int(defaultBPM))
	}
	if c := rec.first(vcMeter); c != nil {
		vf.Assert("echo-states-no-other-meter", c.num == uint8(defaultMeter.Num) && c.den == uint8(defaultMeter.Denom))
	}
	vf.Assert("at-most-one-key-event", rec.count(vcKey) <= 1 && (inst.Key == nil || rec.count(vcKey) == 1))
	vf.Reach("end")
}
