package play

import (
	"github.com/berquerant/crd/note"
	"github.com/berquerant/crd/op"
	vf "github.com/berquerant/crd/zz_verif"
	"github.com/berquerant/crd/zz_verif/crdx"
	"github.com/berquerant/crd/zz_verif/spec"
)

// VerifC05Transpose: the same chord played in two keys sounds the same pitches shifted by
// one constant, congruent to the distance between the tonics.
func VerifC05Transpose() {
	vf.Summarise("(github.com/berquerant/crd/note.Degree).Semitone")
	vf.Summarise("(github.com/berquerant/crd/op.Key).Semitone")
	vf.Summarise("github.com/berquerant/crd/zz_verif/spec.*")
	k1, l1, a1, _ := crdx.SymbolicListedKey("k1.")
	k2, l2, a2, _ := crdx.SymbolicListedKey("k2.")
	n := uint(vf.NondetIntRange("n", 1, vf.Param("C05.maxDegree", 9)))
	q := vf.NondetInt("q")
	vf.Assume(1 <= q)
	vf.Assume(q <= 7)
	symbol := verifDict.Symbols[vf.NondetIntRange("symbol", 0, len(verifDict.Symbols)-1)]
	rec, _ := verifDict.Map.GetChord(symbol)
	var bass *note.Degree
	if vf.NondetIntRange("hasBass", 0, 1) == 1 {
		bass = &note.Degree{Value: 3, Name: note.MajorDegree}
	}
	c := op.NewChord(note.Degree{Value: n, Name: crdx.QualityOf(q)}, rec, bass)
	p1, e1 := NewKey(k1, verifDict.Map).Apply(c)
	p2, e2 := NewKey(k2, verifDict.Map).Apply(c)
	vf.Assert("playable-in-one-key-iff-in-the-other", (e1 == nil) == (e2 == nil))
	if e1 != nil || e2 != nil {
		vf.Reach("rejected")
		return
	}
	vf.Assert("same-number-of-notes", len(p1) == len(p2) && len(p1) >= 2)
	d0 := uint8(p2[0]) - uint8(p1[0])
	for i := range p1 {
		vf.Assert("every-pitch-shifted-by-the-same-amount", uint8(p2[i])-uint8(p1[i]) == d0)
	}
	// the distance between the tonics as notes of the octave of middle C (Cb4 = 59 … B4 = 71)
	dr := spec.RawPitch(l2, a2) - spec.RawPitch(l1, a1)
	vf.Assert("shift-is-the-distance-between-the-tonics", d0 == uint8(dr))
	vf.Reach("end")
}
