package input

import (
	"github.com/berquerant/crd/note"
	"github.com/berquerant/crd/op"
	"github.com/berquerant/crd/util"
	vf "github.com/berquerant/crd/zz_verif"
	"gopkg.in/yaml.v3"
)

var verifQualities = [8]note.DegreeName{note.UnknownDegree, note.MajorDegree, note.MinorDegree, note.PerfectDegree, note.AugmentedDegree,
	note.DiminishedDegree, note.DoublyAugmentedDegree, note.DoublyDiminishedDegree}

// verifDegree picks one of a few representative intervals (every interval's own notation
// round trip is decided by note.VerifC10DegreeCodec).
func verifDegree(name string) note.Degree {
	ds := []note.Degree{{Value: 1, Name: note.PerfectDegree}, {Value: 3, Name: note.MinorDegree}, {Value: 11, Name: note.AugmentedDegree},
		{Value: 7, Name: note.DoublyDiminishedDegree}, {Value: 10, Name: note.MajorDegree}}
	return ds[vf.NondetIntRange(name, 0, vf.Param("C10.degrees", 3)-1)]
}

// VerifC10Instance: an instances document printed by `text conv` and read by `write`
// carries the same chord, bass, durations, settings and texts (arbitrary text bytes).
func VerifC10Instance() {
	vf.Summarise("(github.com/berquerant/crd/note.Degree).Semitone")
	x := &Instance{}
	if vf.NondetIntRange("isChord", 0, 1) == 1 {
		c := &Chord{Degree: verifDegree("deg"), Chord: []string{"#weird: symbol", "m7", "7", ""}[vf.NondetIntRange("symbol", 0, vf.Param("C10.symbols", 2)-1)]}
		if vf.NondetIntRange("hasBase", 0, 1) == 1 {
			b := verifDegree("base")
			c.Base = &b
		}
		x.Chord = c
	}
	nv := vf.NondetIntRange("values", 1, vf.Param("C10.maxValues", 1))
	for i := 0; i < nv; i++ {
		num, den := vf.NondetUint("num"), vf.NondetUint("den")
		vf.Assume(num >= 1)
		vf.Assume(num <= 99)
		vf.Assume(den >= 1)
		vf.Assume(den <= 99)
		x.Values = append(x.Values, note.Value{Rat: util.NewRat(num, den)})
	}
	if vf.NondetIntRange("hasSettings", 0, 1) == 1 {
		bpm := op.BPM(vf.NondetUint("bpm"))
		vf.Assume(bpm >= 4) // a tempo a MIDI file can state (smaller ones are refused when read: ScalarCodecs)
		vf.Assume(uint(bpm) <= 999)
		x.BPM = &bpm
		d := op.DynamicSign(vf.NondetIntRange("dyn", 1, 6))
		x.Velocity = &d
		m := op.Meter{Rat: util.NewRat(6, 8)}
		x.Meter = &m
		k := op.Key{Name: note.E, Accidental: op.Flat, Minor: true}
		x.Key = &k
	}
	tl := vf.NondetIntRange("txt.len", -1, vf.Param("C10.maxText", 1))
	var txt string
	if tl >= 0 {
		txt = vf.NondetString("txt", tl)
		for i := 0; i < tl; i++ {
			vf.Assume(txt[i] < 0x80) // valid UTF-8: ASCII here
		}
		x.Meta = op.NewMeta(MetaTextKey, txt, MetaBPMKey, "90")
	}
	b, merr := yaml.Marshal([]*Instance{x})
	vf.Assert("marshal-ok", merr == nil)
	var back []*Instance
	uerr := yaml.Unmarshal(b, &back)
	vf.Assert("printed-document-is-read-back", uerr == nil && len(back) == 1 && back[0] != nil)
	if uerr != nil || len(back) != 1 || back[0] == nil {
		return
	}
	y := back[0]
	vf.Assert("same-rest-or-chord", (y.Chord == nil) == (x.Chord == nil))
	if x.Chord != nil && y.Chord != nil {
		vf.Assert("same-degree", y.Chord.Degree == x.Chord.Degree)
		vf.Assert("same-symbol", y.Chord.Chord == x.Chord.Chord)
		vf.Assert("same-bass", (y.Chord.Base == nil) == (x.Chord.Base == nil) && (x.Chord.Base == nil || *y.Chord.Base == *x.Chord.Base))
	}
	vf.Assert("same-number-of-durations", len(y.Values) == len(x.Values))
	for i := range x.Values {
		if i < len(y.Values) {
			vf.Assert("same-durations", y.Values[i] == x.Values[i])
		}
	}
	if x.BPM != nil {
		vf.Assert("same-settings", y.BPM != nil && *y.BPM == *x.BPM && y.Velocity != nil && *y.Velocity == *x.Velocity &&
			y.Meter != nil && *y.Meter == *x.Meter && y.Key != nil && *y.Key == *x.Key)
	} else {
		vf.Assert("no-settings-invented", y.BPM == nil && y.Velocity == nil && y.Meter == nil && y.Key == nil)
	}
	if tl >= 0 {
		vf.Assert("same-texts", y.Meta != nil && y.Meta.Get(MetaTextKey) == txt && y.Meta.Get(MetaBPMKey) == "90")
	} else {
		vf.Assert("no-meta-invented", y.Meta == nil)
	}
	vf.Reach("end")
}
