package ast

import (
	vf "github.com/berquerant/crd/zz_verif"
	"github.com/berquerant/ybase"
)

// ZzParseRunes parses a rune string with the real lexer and parser over the model reader.
func ZzParseRunes(src []rune) (*ChordList, error) {
	lex, _ := verifNewLexer(src)
	_ = Parse(lex)
	return lex.Result, lex.Err()
}

// ZzTokenKinds exposes the token numbers other packages' harnesses need.
func ZzTokenKinds() (sharp, flat int) { return SHARP, FLAT }

var verifTrivia = []string{" ", "\t", "\n", "  \n\t", ";\n", "; a comment\n", " ;x\n ;y\n"}

type verifScanResult struct {
	kind    int
	text    string
	pos     int
	expSym  bool
	expMeta bool
	failed  bool
}

func verifScanOnce(src []rune, expSym, expMeta bool) verifScanResult {
	lex, rd := verifNewLexer(src)
	lex.SetExpectSymbol(expSym)
	lex.SetExpectMetadata(expMeta)
	var lval yySymType
	k := lex.Lex(&lval)
	r := verifScanResult{kind: k, pos: rd.pos, expSym: lex.expectSymbol, expMeta: lex.expectMetadata, failed: rd.err != nil}
	if k != ybase.EOF && lval.token != nil {
		r.text = lval.token.Value()
	}
	return r
}

// VerifC11Trivia: spaces, tabs, newlines and ; comments in front of a token change nothing:
// same token, same text, same rest of input, same mode — in default mode and between `_`
// and its symbol; inside {...} leading whitespace is trivia.
func VerifC11Trivia() {
	mode := vf.NondetIntRange("mode", 0, 2) // 0 default, 1 after underscore, 2 metadata
	n := vf.NondetIntRange("len", 0, vf.Param("C11.window", 3))
	rest := verifWindow("r", n, true)
	var trivia string
	if mode == 2 {
		trivia = []string{" ", "\t", "\n", " \n\t "}[vf.NondetIntRange("trivia", 0, 3)]
		vf.Class("metadata-mode")
	} else {
		ti := vf.NondetIntRange("trivia", 0, len(verifTrivia)-1)
		trivia = verifTrivia[ti]
		if mode == 1 && ti >= 4 {
			vf.Class("comment-after-underscore")
		}
	}
	vf.Unwind(2*n + 60)
	vf.MaxDepth(n + 30)
	vf.MustTerminate()
	expSym, expMeta := mode == 1, mode == 2
	plain := verifScanOnce(rest, expSym, expMeta)
	// (the parser trace of --debug switched on or off: the reading is the same)
	SetDebug(vf.NondetIntRange("debug", 0, 1))
	with := verifScanOnce(append([]rune(trivia), rest...), expSym, expMeta)
	SetDebug(0)
	vf.Assert("trivia-same-token", with.kind == plain.kind)
	vf.Assert("trivia-same-text", with.text == plain.text)
	vf.Assert("trivia-same-error-state", with.failed == plain.failed)
	if plain.kind != ybase.EOF {
		vf.Assert("trivia-same-rest-of-input", with.pos == plain.pos+len([]rune(trivia)))
		vf.Assert("trivia-same-mode", with.expSym == plain.expSym && with.expMeta == plain.expMeta)
	}
	vf.Class("")
	vf.Reach("end")
}

// VerifC11Underscore: writing `_` before a symbol that does not need it gives the same tree.
func VerifC11Underscore() {
	n := vf.NondetIntRange("len", 1, vf.Param("C11.symbol", 3))
	sym := verifWindow("s", n, true)
	vf.Unwind(4*n + 80)
	vf.MaxDepth(n + 40)
	vf.MustTerminate()
	plainSrc := append(append([]rune("C"), sym...), []rune("[1]")...)
	withSrc := append(append([]rune("C_"), sym...), []rune("[1]")...)
	plain, perr := ZzParseRunes(plainSrc)
	if perr != nil || plain == nil || len(plain.List) != 1 {
		vf.Reach("plain-rejected")
		return
	}
	pc, ok := plain.List[0].(*Chord)
	if !ok || pc.Symbol == nil || pc.Symbol.Symbol.Value() != string(sym) || pc.Base != nil || pc.Degree.Accidental != nil {
		// the text was not read as C + that symbol (e.g. it started with b, # or a digit)
		vf.Reach("not-a-plain-symbol")
		return
	}
	with, werr := ZzParseRunes(withSrc)
	vf.Assert("underscore-spelling-accepted", werr == nil && with != nil && len(with.List) == 1)
	if werr != nil || with == nil || len(with.List) != 1 {
		return
	}
	a, b := verifFlatten(plain), verifFlatten(with)
	same := len(a) == len(b)
	for i := 0; same && i < len(a); i++ {
		same = a[i] == b[i]
	}
	vf.Assert("underscore-changes-nothing", same)
	vf.Reach("end")
}

// VerifC11TriviaBetween: inserting spaces, newlines or a comment at a token boundary (right
// after a token, as the lexer itself delimits it) changes neither that token nor the next.
func VerifC11TriviaBetween() {
	n := vf.NondetIntRange("len", 1, vf.Param("C11.between", 3))
	src := verifWindow("r", n, true)
	trivia := []rune([]string{" ", "\n", ";c\n", " ;c\n\t"}[vf.NondetIntRange("trivia", 0, 3)])
	expSym := vf.NondetIntRange("expSym", 0, 1) == 1
	vf.Unwind(2*n + 60)
	vf.MaxDepth(n + 30)
	vf.MustTerminate()
	scan2 := func(text []rune) (a, b verifScanResult) {
		lex, rd := verifNewLexer(text)
		lex.SetExpectSymbol(expSym)
		var lval yySymType
		k := lex.Lex(&lval)
		a = verifScanResult{kind: k, pos: rd.pos, expSym: lex.expectSymbol, expMeta: lex.expectMetadata, failed: rd.err != nil}
		if k != ybase.EOF && lval.token != nil {
			a.text = lval.token.Value()
		}
		if k == ybase.EOF {
			return
		}
		var lval2 yySymType
		k2 := lex.Lex(&lval2)
		b = verifScanResult{kind: k2, pos: rd.pos, expSym: lex.expectSymbol, expMeta: lex.expectMetadata, failed: rd.err != nil}
		if k2 != ybase.EOF && lval2.token != nil {
			b.text = lval2.token.Value()
		}
		return
	}
	t1, t2 := scan2(src)
	if t1.kind == ybase.EOF || t1.expMeta {
		// no token, or a `{`: inside {...} spaces belong to the key/value text
		vf.Reach("skipped")
		return
	}
	k := t1.pos
	with := append(append(append([]rune{}, src[:k]...), trivia...), src[k:]...)
	w1, w2 := scan2(with)
	vf.Assert("token-before-trivia-unchanged", w1.kind == t1.kind && w1.text == t1.text && w1.pos == t1.pos)
	vf.Assert("token-after-trivia-unchanged", w2.kind == t2.kind && w2.text == t2.text && w2.failed == t2.failed)
	if t2.kind != ybase.EOF {
		vf.Assert("rest-of-input-unchanged", w2.pos == t2.pos+len(trivia))
	}
	vf.Reach("end")
}

// VerifC11MetaSpaces: inside {...} the tokens are key, `=`, value, `,` and the braces; spaces,
// tabs and line breaks between them change nothing: `{key = Am}` is `{key=Am}`. (A `;` inside
// braces is text, not a comment; spaces INSIDE a key or value belong to it.)
func VerifC11MetaSpaces() {
	nk := vf.NondetIntRange("key.len", 1, vf.Param("C11.metaLen", 2))
	nv := vf.NondetIntRange("val.len", 1, vf.Param("C11.metaLen", 2))
	key, val := verifWindow("k", nk, true), verifWindow("v", nv, true)
	for _, w := range [][]rune{key, val} {
		for i, r := range w {
			vf.Assume(r != '{' && r != '}' && r != '=' && r != ',')
			if i == 0 || i == len(w)-1 {
				vf.Assume(r != ' ' && r != '\t' && r != '\n' && r != '\v' && r != '\f' && r != '\r')
			}
		}
	}
	trivia := []rune([]string{" ", "\t", "\n", "  \n\t"}[vf.NondetIntRange("trivia", 0, 3)])
	at := vf.NondetIntRange("at", 0, 5) // { ^0 key ^1 = ^2 value ^3 , ^4 x=y ^5 }
	parts := [][]rune{[]rune("C[1]{"), key, []rune("="), val, []rune(","), []rune("x=y"), []rune("}")}
	var plain, spaced []rune
	for i, p := range parts {
		plain = append(plain, p...)
		spaced = append(spaced, p...)
		if i == at {
			spaced = append(spaced, trivia...)
		}
	}
	vf.Unwind(40*len(spaced) + 400)
	vf.MaxDepth(len(spaced) + 60)
	parse := func(text []rune) ([]string, bool) {
		lex, _ := verifNewLexer(text)
		ret := Parse(lex)
		if ret != 0 || lex.Err() != nil || lex.Result == nil {
			return nil, false
		}
		return verifFlatten(lex.Result), true
	}
	a, aok := parse(plain)
	b, bok := parse(spaced)
	vf.Assert("metadata-block-parses", aok)
	vf.Assert("spaces-between-metadata-tokens-same-outcome", aok == bok)
	if aok && bok {
		same := len(a) == len(b)
		for i := 0; same && i < len(a); i++ {
			same = a[i] == b[i]
		}
		vf.Assert("spaces-between-metadata-tokens-change-nothing", same)
	}
	vf.Reach("end")
}
