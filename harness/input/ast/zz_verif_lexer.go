package ast

import (
	"errors"
	"fmt"
	"unicode"

	vf "github.com/berquerant/crd/zz_verif"
	"github.com/berquerant/ybase"
)

// verifReader is a model of ybase's reader over a rune slice: same interface, same
// end-of-input behaviour (Peek/Next/Discard return EOF and do not advance).
type verifReader struct {
	src []rune
	pos int
	buf []rune
	err error
}

func (r *verifReader) ResetBuffer()   { r.buf = nil }
func (r *verifReader) Buffer() string { return string(r.buf) }
func (r *verifReader) Peek() rune {
	if r.pos >= len(r.src) {
		return ybase.EOF
	}
	return r.src[r.pos]
}
func (r *verifReader) Next() rune {
	if r.pos >= len(r.src) {
		return ybase.EOF
	}
	g := r.src[r.pos]
	r.pos++
	r.buf = append(r.buf, g)
	return g
}
func (r *verifReader) Discard() rune {
	if r.pos >= len(r.src) {
		return ybase.EOF
	}
	g := r.src[r.pos]
	r.pos++
	return g
}
func (r *verifReader) Err() error                  { return r.err }
func (r *verifReader) Debugf(msg string, v ...any) {}
func (r *verifReader) Errorf(err error, msg string, v ...any) {
	r.err = errors.Join(ybase.ErrYbase, fmt.Errorf("%w: %s", err, msg))
}
func (r *verifReader) DiscardWhile(pred func(rune) bool) {
	for x := r.Peek(); pred(x); x = r.Peek() {
		_ = r.Discard()
	}
}
func (r *verifReader) NextWhile(pred func(rune) bool) {
	for x := r.Peek(); pred(x); x = r.Peek() {
		_ = r.Next()
	}
}
func (r *verifReader) Pos() ybase.Pos { return ybase.NewPos(1, 0, 0) }

// verifNewLexer wires the real scanner and the real ybase lexer to the model reader,
// exactly as NewLexer does with the real reader.
func verifNewLexer(src []rune) (*Lexer, *verifReader) {
	yyErrorVerbose = true
	rd := &verifReader{src: src}
	scanner := &LexScanner{}
	lex := &Lexer{LexScanner: scanner, Lexer: ybase.NewLexer(ybase.NewScanner(rd, scanner.ScanFunc))}
	scanner.publishError = lex.Error
	return lex, rd
}

// ---- reference tokenizer, written from the documented notation ----

func verifIn(set string, r rune) bool {
	for _, c := range set {
		if c == r {
			return true
		}
	}
	return false
}

type verifRefTok struct {
	kind    int // token kind, or ybase.EOF at end of input / lexical error
	text    []rune
	pos     int
	expSym  bool
	expMeta bool
	failed  bool // lexical error (as opposed to plain end of input)
}

func verifRefScan(src []rune, pos int, expSym, expMeta bool) verifRefTok {
	n := len(src)
	for {
		for pos < n && unicode.IsSpace(src[pos]) {
			pos++
		}
		if expMeta && pos < n && !verifIn("{}=,", src[pos]) {
			st := pos
			for pos < n && !verifIn("{}=,", src[pos]) {
				pos++
			}
			// the key / value text: white space is dropped at both ends (before it like before
			// any token, after it so that `{key = Am}` is `{key=Am}`), kept inside
			end := pos
			for end > st && unicode.IsSpace(src[end-1]) {
				end--
			}
			return verifRefTok{kind: METADATA, text: src[st:end], pos: pos, expSym: expSym, expMeta: expMeta}
		}
		symRune := func(r rune) bool { return !verifIn("/[_;=", r) && !unicode.IsSpace(r) }
		if expSym {
			// comments (and the spaces after them) are ignored between `_` and the symbol
			for pos < n && src[pos] == ';' {
				for pos < n && src[pos] != '\n' {
					pos++
				}
				for pos < n && unicode.IsSpace(src[pos]) {
					pos++
				}
			}
			if pos < n && symRune(src[pos]) {
				st := pos
				for pos < n && symRune(src[pos]) {
					pos++
				}
				return verifRefTok{kind: SYMBOL, text: src[st:pos], pos: pos, expSym: false, expMeta: expMeta}
			}
			return verifRefTok{kind: ybase.EOF, pos: pos, expSym: expSym, expMeta: expMeta, failed: true}
		}
		if pos >= n {
			return verifRefTok{kind: ybase.EOF, pos: pos, expSym: expSym, expMeta: expMeta}
		}
		c := src[pos]
		if c == ';' {
			for pos < n && src[pos] != '\n' {
				pos++
			}
			continue
		}
		one := func(k int) verifRefTok {
			return verifRefTok{kind: k, text: src[pos : pos+1], pos: pos + 1, expSym: expSym, expMeta: expMeta}
		}
		switch {
		case c >= 'A' && c <= 'G':
			return one(SYLLABLE)
		case c == 'R':
			return one(REST)
		case c == '/':
			return one(SLASH)
		case c == '[':
			return one(LBRA)
		case c == ']':
			return one(RBRA)
		case c == '{':
			t := one(LCBRA)
			t.expMeta = true
			return t
		case c == '}':
			t := one(RCBRA)
			t.expMeta = false
			return t
		case c == '=':
			return one(EQUAL)
		case c == ',':
			return one(COMMA)
		case c == '#' || c == '♯':
			return one(SHARP)
		case c == 'b' || c == '♭':
			return one(FLAT)
		case c == '_':
			t := one(UNDERSCORE)
			t.expSym = true
			return t
		}
		if c >= '0' && c <= '9' {
			st := pos
			for pos < n && src[pos] >= '0' && src[pos] <= '9' {
				pos++
			}
			return verifRefTok{kind: NUMBER, text: src[st:pos], pos: pos, expSym: expSym, expMeta: expMeta}
		}
		st := pos
		for pos < n && symRune(src[pos]) {
			pos++
		}
		return verifRefTok{kind: SYMBOL, text: src[st:pos], pos: pos, expSym: expSym, expMeta: expMeta}
	}
}

// verifWindow returns n arbitrary runes; with ascii they are restricted to 1..127.
func verifWindow(name string, n int, ascii bool) []rune {
	src := vf.NondetRunes(name, n)
	for _, r := range src {
		if ascii {
			vf.Assume(r >= 1)
			vf.Assume(r <= 127)
		} else {
			// what a rune reader can deliver: a Unicode scalar value
			vf.Assume(r >= 0)
			vf.Assume(r <= 0x10FFFF)
			vf.Assume(r < 0xD800 || r > 0xDFFF)
		}
	}
	return src
}

// VerifC04ScanToken: one token from every lexer mode on an arbitrary window followed by
// end of input: kind, text, consumed runes and new mode equal the reference; the scan
// terminates (inputs ending inside a symbol, comment or metadata included).
func VerifC04ScanToken() {
	n := vf.NondetIntRange("len", 0, vf.Param("C04.window", 3))
	src := verifWindow("r", n, vf.Param("C04.wide", 0) == 0) // wide: any Unicode scalar value
	expSym := vf.NondetIntRange("expSym", 0, 1) == 1
	expMeta := vf.NondetIntRange("expMeta", 0, 1) == 1
	vf.Unwind(4*n + 12)
	vf.MaxDepth(n + 20)
	vf.MustTerminate()
	if expSym {
		vf.Class("symbol-mode")
	} else if expMeta {
		vf.Class("metadata-mode")
	} else {
		vf.Class("default-mode")
	}
	lex, rd := verifNewLexer(src)
	lex.SetExpectSymbol(expSym)
	lex.SetExpectMetadata(expMeta)
	var lval yySymType
	kind := lex.Lex(&lval)
	vf.Class("")
	vf.Unwind(1 << 20)
	ref := verifRefScan(src, 0, expSym, expMeta)
	vf.Assert("token-kind", kind == ref.kind)
	if ref.kind != ybase.EOF && kind == ref.kind {
		vf.Assert("token-text", lval.token != nil && lval.token.Value() == string(ref.text))
		vf.Assert("runes-consumed", rd.pos == ref.pos)
		vf.Assert("mode-after-token", lex.expectSymbol == ref.expSym && lex.expectMetadata == ref.expMeta)
		vf.Reach("token")
	} else if ref.kind == ybase.EOF {
		vf.Assert("lexical-error-is-reported", (rd.err != nil) == ref.failed)
		vf.Reach("eof")
	}
	vf.Reach("end")
}

// verifRefTokenize runs the reference tokenizer to the end of the input.
func verifRefTokenize(src []rune) (kinds []int, texts []string, failed bool) {
	pos, expSym, expMeta := 0, false, false
	for {
		t := verifRefScan(src, pos, expSym, expMeta)
		if t.kind == ybase.EOF {
			return kinds, texts, t.failed
		}
		kinds = append(kinds, t.kind)
		texts = append(texts, string(t.text))
		pos, expSym, expMeta = t.pos, t.expSym, t.expMeta
	}
}

// VerifC04ParseRunes: the real lexer and the real parser together on an arbitrary rune
// string: accepted iff the reference tokenisation is a sentence of chords.y; the tree
// carries the written token texts; always terminates.
func VerifC04ParseRunes() {
	n := vf.NondetIntRange("len", 0, vf.Param("C04.runes", 4))
	src := verifWindow("r", n, true)
	vf.Unwind(4*n + 40)
	vf.MaxDepth(n + 30)
	vf.MustTerminate()
	lex, _ := verifNewLexer(src)
	ret := Parse(lex)
	accepted := ret == 0 && lex.Err() == nil
	vf.Unwind(1 << 20) // the termination bound is for the code under test, not for the reference
	vf.MaxDepth(1000)
	kinds, texts, failed := verifRefTokenize(src)
	want := !failed && verifDerives(kinds)
	vf.Assert("text-accepted-iff-sentence-of-the-grammar", accepted == want)
	if accepted {
		vf.Reach("accepted")
		vf.Assert("result-set", lex.Result != nil)
		if lex.Result != nil {
			got, ref := verifFlatten(lex.Result), verifRefFlatten(kinds)
			same := len(got) == len(ref)
			for i := 0; same && i < len(got); i++ {
				// the reference flattening names tokens t<i>; substitute the written text
				same = got[i] == verifSubst(ref[i], texts)
			}
			vf.Assert("tree-carries-the-written-texts", same)
		}
	} else {
		vf.Assert("failure-reported-through-error", lex.Err() != nil)
		vf.Reach("rejected")
	}
	vf.Reach("end")
}

// verifSubst replaces the token name t<i> in "role=t<i>" by the i-th token text.
func verifSubst(item string, texts []string) string {
	for k := 0; k < len(item); k++ {
		if item[k] == '=' {
			idx := 0
			for _, c := range item[k+2:] {
				idx = idx*10 + int(c-'0')
			}
			return item[:k+1] + texts[idx]
		}
	}
	return item
}

// ZzParseString parses chord text the way cmd.parseText does, over the model reader
// (harness support for other packages; overlay only).
func ZzParseString(s string) (*ChordList, error) {
	lex, _ := verifNewLexer([]rune(s))
	_ = Parse(lex)
	return lex.Result, lex.Err()
}

// ZzNewModelReader is the constructor the engine substitutes for ybase.NewReader.
func ZzNewModelReader(src []rune) ybase.Reader { return &verifReader{src: src} }

// VerifC04Sentences: whole sentences with REPEATED content — the same key, value, number or
// chord written twice in one piece — through the real lexer and parser: the tree lists every
// written item, in order, however often the same text occurs (nothing is merged, deduplicated
// or reordered). The bounded token-string harness names every token differently and cannot
// reach two metadata pairs; this one can.
func VerifC04Sentences() {
	k := vf.NondetIntRange("elements", 1, vf.Param("C04.sentenceElements", 3))
	text := ""
	// every optional part of a chord (accidental, symbol, bass, bass accidental, metadata) is
	// present in some elements and absent in others, in every order: a part that is absent must
	// be absent in the tree, whatever an earlier element carried
	elems := []string{"C", "Bb", "C#_m7/C#", "D_m", "E/G#", "R"}
	metas := []string{"", "{a=x}", "{a=x,a=y}", "{a=x,b=y,a=x}", "{a=x,a=x}", "{a=a,x=x,a=a,x=a}"}
	for i := 0; i < k; i++ {
		text += elems[vf.NondetIntRange("element", 0, len(elems)-1)]
		if k <= 2 {
			text += []string{"[1]", "[1,1,1/1]"}[vf.NondetIntRange("values", 0, 1)]
			text += metas[vf.NondetIntRange("meta", 0, len(metas)-1)]
		} else {
			// three elements: a reduced choice of durations and metadata keeps the product small
			text += "[1]"
			text += metas[vf.NondetIntRange("meta", 0, 1)]
		}
		text += " "
	}
	src := []rune(text)
	vf.Unwind(40*len(src) + 400)
	vf.MaxDepth(len(src) + 60)
	lex, _ := verifNewLexer(src)
	ret := Parse(lex)
	vf.Assert("sentence-is-accepted", ret == 0 && lex.Err() == nil && lex.Result != nil)
	if ret != 0 || lex.Result == nil {
		return
	}
	vf.Unwind(1 << 20) // the bound above is for the code under test, not for the reference
	vf.MaxDepth(1000)
	kinds, texts, failed := verifRefTokenize(src)
	vf.Assert("reference-accepts-it-too", !failed && verifDerives(kinds))
	got, ref := verifFlatten(lex.Result), verifRefFlatten(kinds)
	same := len(got) == len(ref)
	for i := 0; same && i < len(got); i++ {
		same = got[i] == verifSubst(ref[i], texts)
	}
	vf.Assert("tree-lists-every-written-item-in-order", same)
	vf.Reach("end")
}
