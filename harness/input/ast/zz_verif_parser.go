package ast

import (
	"fmt"

	vf "github.com/berquerant/crd/zz_verif"
	"github.com/berquerant/ybase"
)

// ---- reference recogniser: Earley over the grammar read from chords.y ----

type verifItem struct {
	rule, dot, origin int
}

// verifDerives reports whether the token-kind string is a sentence of the grammar.
func verifDerives(toks []int) bool { return verifEarley(toks, false) }

// verifViable reports whether some sentence starts with the token-kind string.
func verifViable(toks []int) bool { return verifEarley(toks, true) }

func verifEarley(toks []int, viableOnly bool) bool {
	n := len(toks)
	sets := make([][]verifItem, n+1)
	add := func(k int, it verifItem) {
		for _, x := range sets[k] {
			if x == it {
				return
			}
		}
		sets[k] = append(sets[k], it)
	}
	// nullable nonterminals (fixpoint)
	nullable := map[int]bool{}
	for changed := true; changed; {
		changed = false
		for _, r := range verifGrammarRules {
			if nullable[r[0]] {
				continue
			}
			all := true
			for _, s := range r[1:] {
				if s >= 0 || !nullable[s] {
					all = false
					break
				}
			}
			if all {
				nullable[r[0]] = true
				changed = true
			}
		}
	}
	for ri, r := range verifGrammarRules {
		if r[0] == verifGrammarStart {
			add(0, verifItem{ri, 0, 0})
		}
	}
	for k := 0; k <= n; k++ {
		for i := 0; i < len(sets[k]); i++ {
			it := sets[k][i]
			r := verifGrammarRules[it.rule]
			if it.dot == len(r)-1 {
				// complete
				for _, p := range sets[it.origin] {
					pr := verifGrammarRules[p.rule]
					if p.dot < len(pr)-1 && pr[1+p.dot] == r[0] {
						add(k, verifItem{p.rule, p.dot + 1, p.origin})
					}
				}
				continue
			}
			s := r[1+it.dot]
			if s < 0 {
				// predict
				for ri, q := range verifGrammarRules {
					if q[0] == s {
						add(k, verifItem{ri, 0, k})
					}
				}
				if nullable[s] {
					add(k, verifItem{it.rule, it.dot + 1, it.origin})
				}
			} else if k < n && toks[k] == s {
				add(k+1, verifItem{it.rule, it.dot + 1, it.origin})
			}
		}
	}
	if viableOnly {
		return len(sets[n]) > 0
	}
	for _, it := range sets[n] {
		r := verifGrammarRules[it.rule]
		if r[0] == verifGrammarStart && it.dot == len(r)-1 && it.origin == 0 {
			return true
		}
	}
	return false
}

// ---- stub lexer handing arbitrary token kinds to the real parser ----

type verifTokenSource struct {
	kinds []int
	pos   int
	err   error
	calls int
}

func (s *verifTokenSource) ResetBuffer()                                   {}
func (s *verifTokenSource) Buffer() string                                 { return "" }
func (s *verifTokenSource) Next() rune                                     { return ybase.EOF }
func (s *verifTokenSource) Peek() rune                                     { return ybase.EOF }
func (s *verifTokenSource) Discard() rune                                  { return ybase.EOF }
func (s *verifTokenSource) Err() error                                     { return s.err }
func (s *verifTokenSource) Debugf(msg string, v ...any)                    {}
func (s *verifTokenSource) Errorf(err error, msg string, v ...any)         { s.err = err }
func (s *verifTokenSource) DiscardWhile(pred func(rune) bool)              {}
func (s *verifTokenSource) NextWhile(pred func(rune) bool)                 {}
func (s *verifTokenSource) Pos() ybase.Pos                                 { return ybase.NewPos(1, 0, 0) }
func (s *verifTokenSource) Scan() int                                      { return ybase.EOF }
func (s *verifTokenSource) Error(msg string)                               { s.err = fmt.Errorf("%w: %s", ybase.ErrYbase, msg) }
func (s *verifTokenSource) DoLex(callback func(ybase.Token)) int {
	s.calls++
	if s.err != nil || s.pos >= len(s.kinds) {
		return ybase.EOF // like the real reader, end of input is sticky
	}
	k := s.kinds[s.pos]
	v := fmt.Sprintf("t%d", s.pos)
	s.pos++
	callback(ybase.NewToken(k, v, ybase.NewPos(1, 0, 0), ybase.NewPos(1, 0, 0)))
	return k
}

// verifFlatten renders a tree as the sequence of its leaves tagged with their role.
func verifFlatten(l *ChordList) []string {
	var out []string
	deg := func(role string, d *ChordDegree) {
		if d == nil {
			out = append(out, role+":nil")
			return
		}
		out = append(out, role+"="+d.Degree.Value())
		if d.Accidental != nil {
			out = append(out, role+".acc="+d.Accidental.Value())
		}
	}
	vals := func(v *ChordValues) {
		if v == nil {
			out = append(out, "values:nil")
			return
		}
		for _, x := range v.Values {
			out = append(out, "num="+x.Num.Value())
			if x.Denom != nil {
				out = append(out, "den="+x.Denom.Value())
			}
		}
	}
	meta := func(m *ChordMeta) {
		if m == nil {
			return
		}
		for _, x := range m.Data {
			out = append(out, "key="+x.Key.Value(), "val="+x.Value.Value())
		}
	}
	for _, it := range l.List {
		switch x := it.(type) {
		case *Rest:
			out = append(out, "rest")
			vals(x.Values)
			meta(x.Meta)
		case *Chord:
			out = append(out, "chord")
			deg("root", x.Degree)
			if x.Symbol != nil {
				out = append(out, "symbol="+x.Symbol.Symbol.Value())
			}
			if x.Base != nil {
				deg("bass", x.Base.Degree)
			}
			vals(x.Values)
			meta(x.Meta)
		default:
			out = append(out, "unknown-node")
		}
	}
	return out
}

// verifRefFlatten is the reference reading of an accepted token string: a walk over the
// tokens that assigns each data-carrying token its role from the documented notation
// (R[..] is a rest, otherwise a chord: root, accidental, optional symbol, /bass, [values], {k=v,...}).
func verifRefFlatten(kinds []int) []string {
	var out []string
	name := func(i int) string { return fmt.Sprintf("t%d", i) }
	i := 0
	n := len(kinds)
	values := func() {
		// at LBRA
		i++
		for i < n && kinds[i] != RBRA {
			if kinds[i] == NUMBER {
				out = append(out, "num="+name(i))
				if i+2 < n && kinds[i+1] == SLASH {
					out = append(out, "den="+name(i+2))
					i += 2
				}
			}
			i++
		}
		i++ // RBRA
		if i < n && kinds[i] == LCBRA {
			i++
			for i < n && kinds[i] != RCBRA {
				if kinds[i] == METADATA && i+2 < n && kinds[i+1] == EQUAL {
					out = append(out, "key="+name(i), "val="+name(i+2))
					i += 2
				}
				i++
			}
			i++
		}
	}
	for i < n {
		if kinds[i] == REST {
			out = append(out, "rest")
			i++
			values()
			continue
		}
		out = append(out, "chord", "root="+name(i))
		i++
		if i < n && (kinds[i] == SHARP || kinds[i] == FLAT) {
			out = append(out, "root.acc="+name(i))
			i++
		}
		if i < n && kinds[i] == UNDERSCORE {
			i++
		}
		if i < n && kinds[i] == SYMBOL {
			out = append(out, "symbol="+name(i))
			i++
		}
		if i < n && kinds[i] == SLASH {
			i++
			out = append(out, "bass="+name(i))
			i++
			if i < n && (kinds[i] == SHARP || kinds[i] == FLAT) {
				out = append(out, "bass.acc="+name(i))
				i++
			}
		}
		values()
	}
	return out
}

// VerifC04Parser: the shipped parser accepts a token string iff it is a sentence of
// chords.y, for every token string up to the bound (including invalid token numbers and
// every proper prefix); accepted strings yield exactly the tree that was written.
func VerifC04Parser() {
	maxLen := vf.Param("C04.maxTokens", 8)
	yyErrorVerbose = true
	src := &verifTokenSource{}
	lex := &Lexer{LexScanner: &LexScanner{}, Lexer: src}
	// the token string is chosen lazily: one more arbitrary token each time the parser asks
	alphabet := append(append([]int{}, verifGrammarTokens...), 1, 57345, 99999) // plus: goyacc's error token, and two numbers outside the alphabet
	bad := -1
	for i := 0; i < maxLen; i++ {
		c := vf.NondetIntRange("tok", 0, len(alphabet)) // 0 = end of input
		if c == 0 {
			break
		}
		src.kinds = append(src.kinds, alphabet[c-1])
		// a prefix no sentence starts with is rejected whatever follows, provided the parser
		// stops reading there (asserted below): explore viable prefixes plus one bad token
		if !verifViable(src.kinds) {
			bad = i
			break
		}
	}
	ret := Parse(lex)
	accepted := ret == 0 && src.err == nil
	want := verifDerives(src.kinds)
	vf.Assert("accepts-exactly-the-grammar", accepted == want)
	if accepted {
		vf.Reach("accepted")
		vf.Assert("result-set-on-acceptance", lex.Result != nil)
		if lex.Result != nil {
			got, ref := verifFlatten(lex.Result), verifRefFlatten(src.kinds)
			same := len(got) == len(ref)
			for i := 0; same && i < len(got); i++ {
				same = got[i] == ref[i]
			}
			vf.Assert("tree-lists-exactly-what-was-written", same)
		}
		vf.Assert("whole-input-consumed", src.pos == len(src.kinds))
	} else {
		vf.Reach("rejected")
		vf.Assert("rejection-is-signalled", ret != 0 || src.err != nil)
		vf.Assert("rejection-sets-the-lexer-error", src.err != nil)
		if bad >= 0 {
			vf.Assert("parser-stops-at-the-first-impossible-token", src.pos == bad+1 && src.calls == bad+1)
			vf.Reach("bad-token")
		}
	}
	vf.Reach("end")
}
