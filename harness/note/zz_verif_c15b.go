package note

import (
	vf "github.com/berquerant/crd/zz_verif"
	"github.com/berquerant/crd/zz_verif/spec"
)

var (
	verifNames   = [7]Name{C, D, E, F, G, A, B}
	verifNatural = [7]int{0, 2, 4, 5, 7, 9, 11}
	verifAccs    = [3]Accidental{Flat, Natural, Sharp}
)

func verifLetterOf(n Name) int {
	for i, x := range verifNames {
		if x == n {
			return i
		}
	}
	return -1
}

func verifAccOf(a Accidental) int {
	switch a {
	case Natural:
		return 0
	case Sharp:
		return 1
	case Flat:
		return -1
	}
	return 99
}

// VerifC15AddDegree: root + interval = a note with the right pitch class and octave offset,
// spelled natural when possible and otherwise with the requested accidental.
func VerifC15AddDegree() {
	vf.Summarise("(github.com/berquerant/crd/note.Degree).Semitone")
	vf.Summarise("github.com/berquerant/crd/zz_verif/spec.*")
	rl := vf.NondetIntRange("root.letter", 0, 6)
	ra := vf.NondetIntRange("root.acc", -1, 1)
	n := uint(vf.NondetIntRange("n", 0, vf.Param("C15.maxAdd", 22)))
	q := vf.NondetInt("q")
	vf.Assume(0 <= q)
	vf.Assume(q <= 8)
	sharp := vf.NondetBool("precedeSharp")
	qs := [9]DegreeName{UnknownDegree, MajorDegree, MinorDegree, PerfectDegree, AugmentedDegree, DiminishedDegree, DoublyAugmentedDegree, DoublyDiminishedDegree, DegreeName(77)}
	d := Degree{Value: n, Name: qs[q]}
	root := NewNote(verifNames[rl], verifAccs[ra+1])
	got, oct, err := root.AddDegree(d, sharp)
	size, exists := spec.IntervalSize(n, q)
	if !exists {
		if !(n == 1 && (q == spec.QDiminished || q == spec.QDDiminished)) {
			vf.Assert("impossible-interval-is-refused", err != nil)
		}
		vf.Reach("refused")
		return
	}
	vf.Assert("existing-interval-can-always-be-added", err == nil)
	if err != nil {
		return
	}
	total := verifNatural[rl] + ra + size
	so := ((total % 12) + 12) % 12
	wantOct := (total - so) / 12
	gl, ga := verifLetterOf(got.Name), verifAccOf(got.Accidental)
	vf.Assert("result-is-a-note", gl >= 0 && ga >= -1 && ga <= 1)
	if gl < 0 {
		return
	}
	vf.Assert("pitch-class-is-root-plus-interval", verifNatural[gl]+ga == so)
	vf.Assert("octave-offset-is-root-plus-interval", int(oct) == wantOct)
	// natural when a natural letter has that pitch; otherwise the requested accidental
	hasNatural := false
	for _, p := range verifNatural {
		hasNatural = vf.Ite(p == so, true, hasNatural)
	}
	if hasNatural {
		vf.Assert("spelled-natural-when-possible", ga == 0)
	} else {
		vf.Assert("otherwise-the-requested-accidental", ga == vf.Ite(sharp, 1, -1))
	}
	vf.Reach("end")
}

// VerifC15ParseDegree: whatever ParseDegree accepts in canonical notation (marks then number,
// or number then marks) is the interval the notation names.
func VerifC15ParseDegree() {
	vf.Summarise("(github.com/berquerant/crd/note.Degree).Semitone")
	marks := []string{"", "b", "bb", "bbb", "#", "##"}[vf.NondetIntRange("marks", 0, 5)]
	nd := vf.NondetIntRange("digits", 1, vf.Param("C15.digits", 2))
	num := vf.NondetString("num", nd)
	for i := 0; i < nd; i++ {
		vf.Assume(num[i] >= '0')
		vf.Assume(num[i] <= '9')
	}
	vf.Assume(num[0] != '0')
	suffix := vf.NondetIntRange("suffix", 0, 1) == 1
	text := marks + num
	if suffix {
		text = num + marks
	}
	got, err := ParseDegree(text)
	n, q, ok := spec.ParseIntervalNotation(marks + num)
	vf.Assert("reference-reads-canonical-notation", ok)
	_, exists := spec.IntervalSize(n, q)
	if !exists && !(n == 1 && (q == spec.QDiminished || q == spec.QDDiminished)) {
		vf.Assert("notation-of-an-impossible-interval-is-refused", err != nil)
		vf.Reach("refused")
		return
	}
	if err != nil {
		// d1 / dd1 are a don't-care
		vf.Reach("refused")
		return
	}
	vf.Assert("parsed-number", got.Value == n)
	gs, gok := got.Semitone()
	ws, _ := spec.IntervalSize(n, q)
	vf.Assert("parsed-interval-has-the-size-the-notation-names", gok && int(gs) == ws)
	vf.Reach("end")
}
