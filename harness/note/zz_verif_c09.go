package note

import (
	vf "github.com/berquerant/crd/zz_verif"
	"gopkg.in/yaml.v3"
)

// VerifC09ValueField: a duration read from YAML never panics; zero, zero-denominator and
// garbage durations are refused.
func VerifC09ValueField() {
	n := vf.NondetIntRange("s.len", 0, vf.Param("C09.maxLen", 3))
	s := vf.NondetString("s", n)
	var v Value
	err := v.UnmarshalYAML(&yaml.Node{Kind: yaml.ScalarNode, Value: s})
	if err == nil {
		vf.Assert("accepted-duration-is-positive", v.Num >= 1 && v.Denom >= 1)
		vf.Reach("accepted")
	}
	vf.Reach("end")
}

// VerifC09NewValue: the constructor used by text conversion refuses zero parts.
func VerifC09NewValue() {
	num, den := vf.NondetUint("num"), vf.NondetUint("den")
	v, err := NewValue(num, den)
	vf.Assert("zero-duration-refused", (err != nil) == (num == 0 || den == 0))
	if err == nil {
		vf.Assert("value-kept", v.Num == num && v.Denom == den)
	}
	vf.Reach("end")
}

// VerifC09DegreeField: interval notation read from YAML never panics on short strings.
func VerifC09DegreeField() {
	n := vf.NondetIntRange("s.len", 0, vf.Param("C09.maxLen", 3))
	s := vf.NondetString("s", n)
	var d Degree
	err := d.UnmarshalYAML(&yaml.Node{Kind: yaml.ScalarNode, Value: s})
	if err == nil {
		_, ok := d.Semitone()
		vf.Assert("accepted-interval-exists", ok)
		vf.Reach("accepted")
	}
	vf.Reach("end")
}

// VerifC15SemitoneUnbounded: the size of an interval with an arbitrary 64-bit number is
// computed within a call depth that does not grow with the number (no stack exhaustion).
func VerifC15SemitoneUnbounded() {
	n := vf.NondetUint("n")
	q := vf.NondetIntRange("q", 1, 7)
	vf.MaxDepth(12)
	vf.MustTerminate()
	d := Degree{Value: n, Name: verifQuality(q)}
	_, _ = d.Semitone()
	vf.Reach("end")
}
