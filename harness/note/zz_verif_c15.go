package note

import (
	vf "github.com/berquerant/crd/zz_verif"
	"github.com/berquerant/crd/zz_verif/spec"
)

// qualityCode maps crd's DegreeName to the reference quality code by *meaning*:
// the names of the constants, not their numeric values, are what the mapping relies on.
func verifQuality(q int) DegreeName {
	switch q {
	case spec.QMajor:
		return MajorDegree
	case spec.QMinor:
		return MinorDegree
	case spec.QPerfect:
		return PerfectDegree
	case spec.QAugmented:
		return AugmentedDegree
	case spec.QDiminished:
		return DiminishedDegree
	case spec.QDAugmented:
		return DoublyAugmentedDegree
	case spec.QDDiminished:
		return DoublyDiminishedDegree
	}
	return UnknownDegree
}

// VerifC15Semitone: Degree.Semitone == textbook size, and exists == "quality exists for n".
func VerifC15Semitone() {
	maxN := vf.Param("C15.maxN", 64)
	vf.MaxDepth(maxN/7 + 4)
	n := vf.NondetUint("n")
	q := vf.NondetIntRange("q", 0, 8)
	vf.Assume(n <= uint(maxN))
	d := Degree{Value: n, Name: verifQuality(q)}
	got, ok := d.Semitone()
	want, exists := spec.IntervalSize(n, q)
	vf.Observe("ok", ok)
	vf.Observe("got", int(got))
	dontCareExistence := (n-1)%7 == 0 && n >= 1 && (q == spec.QDiminished || q == spec.QDDiminished) && n == 1
	if !dontCareExistence {
		vf.Assert("exists-iff-theory", ok == exists)
	}
	if ok {
		vf.Assert("accepted-interval-exists-in-theory-or-dontcare", exists)
		vf.Assert("size-is-textbook", int(got) == want)
	}
	vf.Reach("end")
}
