package note

import (
	vf "github.com/berquerant/crd/zz_verif"
)

// VerifC12SemitoneOrder: interval sizes and accidental parsing do not depend on map iteration order.
func VerifC12SemitoneOrder() {
	n := vf.NondetUint("n")
	vf.Assume(n <= 9)
	q := vf.NondetIntRange("q", 0, 8)
	d := Degree{Value: n, Name: verifQuality(q)}
	ref, rok := d.Semitone()
	vf.NondetMapOrder(true)
	got, gok := d.Semitone()
	vf.NondetMapOrder(false)
	vf.Assert("interval-size-independent-of-map-order", rok == gok && (!rok || ref == got))
	s := []string{"#", "b", "##", "bb", "n", "♯", "♭", "x", ""}[vf.NondetIntRange("acc", 0, 8)]
	a := NewAccidental(s)
	vf.NondetMapOrder(true)
	b := NewAccidental(s)
	vf.NondetMapOrder(false)
	vf.Assert("accidental-parsing-independent-of-map-order", a == b)
	vf.Reach("end")
}
