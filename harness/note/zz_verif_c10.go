package note

import (
	vf "github.com/berquerant/crd/zz_verif"
	"gopkg.in/yaml.v3"
)

// VerifC10DegreeCodec: every interval prints to notation that reads back as the same interval,
// directly and through YAML.
func VerifC10DegreeCodec() {
	vf.Summarise("(github.com/berquerant/crd/note.Degree).Semitone")
	// the number is case-split: printing and parsing a symbolic 64-bit number means div/mod
	// by 10 and by 7 in every query, which no solver here decides fast enough
	n := uint(vf.NondetIntRange("n", 1, vf.Param("C10.maxNumber", 999)))
	q := vf.NondetIntRange("q", 1, 7)
	d := Degree{Value: n, Name: verifQuality(q)}
	_, ok := d.Semitone()
	vf.Assume(ok)
	s := d.String()
	back, err := ParseDegree(s)
	vf.Assert("notation-reads-back", err == nil)
	vf.Assert("notation-reads-back-as-the-same-interval", back == d)
	b, merr := yaml.Marshal(d)
	vf.Assert("yaml-marshal-ok", merr == nil)
	var y Degree
	uerr := yaml.Unmarshal(b, &y)
	vf.Assert("yaml-round-trip", uerr == nil && y == d)
	vf.Reach("end")
}
