package midix

import (
	vf "github.com/berquerant/crd/zz_verif"
	"gitlab.com/gomidi/midi/v2/smf"
)

// verifDurations are the note values (in quarter notes) used by the step lemmas; the
// bookkeeping under test only adds the resulting tick counts, the rounding itself is
// decided separately (VerifC02Ticks*).
var verifDurations = []float64{0.25, 0.5, 1, 1.5, 2, 3, 4, 1.0 / 3, 2.0 / 3, 0.1}

// verifDurRat are the same values as fractions, followed by some whose tick length is not a
// whole number (1/9, 1/7, 5/11, 2/9) and three around the shortest lengths: none is exactly halfway, so round(960*v) is unique.
var verifDurRat = [][2]uint32{{1, 4}, {1, 2}, {1, 1}, {3, 2}, {2, 1}, {3, 1}, {4, 1}, {1, 3}, {2, 3}, {1, 10}, {1, 9}, {1, 7}, {5, 11}, {2, 9},
	// around the smallest lengths: 960/1919 rounds to 1 tick, 960/1921 and 960/2000 to 0 ticks
	{1, 1919}, {1, 1921}, {1, 2000}}

// verifDur picks the i-th duration: the value handed to the writer and the tick count the
// property demands for it, round(960*num/den) in integer arithmetic — independent of the
// writer under test and of anything the writer has done before.
func verifDur(i int) (float64, uint32) {
	num, den := verifDurRat[i][0], verifDurRat[i][1]
	return float64(num) / float64(den), (2*960*num + den) / (2 * den)
}

// verifWriter builds a writer over n tracks in an arbitrary state satisfying the clock
// invariant, with an arbitrary pending rest.
func verifWriter(n int) (*MIDIWriter, *TrackSet, []uint32, uint32, uint32) {
	ts, base, g := verifTrackState(n)
	sel, _ := NewTrackNoSelector(n)
	rest := vf.NondetUint32("rest")
	w := &MIDIWriter{clock: smf.MetricTicks(960), tickDelta: rest, quoaterNoteTicks: 960, set: NewTrackSetController(ts, sel)}
	return w, ts, base, g, rest
}

type verifEvent struct {
	abs   uint32
	track int
	index int
	op    *TrackOp
}

// verifEvents lists the new ops of all tracks with their absolute ticks.
func verifEvents(ts *TrackSet, base []uint32) []verifEvent {
	var evs []verifEvent
	for i := range ts.list {
		abs := base[i]
		for k, o := range ts.list[i].ops {
			abs += o.TickDelta
			evs = append(evs, verifEvent{abs: abs, track: i, index: k, op: o})
		}
	}
	return evs
}

// VerifC02NoteStep: one chord from an arbitrary state: all note-ons at the instance start
// (clock + pending rest), all note-offs at start + length, one on/off pair per key on the
// same track, next instance starts where this one ends; offs follow ons on every track.
func VerifC02NoteStep() {
	n := vf.NondetIntRange("tracks", 1, vf.Param("C02.maxTracks", 4))
	w, ts, base, g, rest := verifWriter(n)
	k := vf.NondetIntRange("keys", 1, vf.Param("C02.maxKeys", 5))
	keys := make([]uint8, k)
	for i := range keys {
		keys[i] = vf.NondetUint8("key")
	}
	vel := vf.NondetUint8("vel")
	value, ticks := verifDur(vf.NondetIntRange("dur", 0, len(verifDurRat)-1))
	err := w.Note(value, vel, keys...)
	vf.Assert("note-succeeds", err == nil)
	start := g + rest
	evs := verifEvents(ts, base)
	vf.Assert("two-events-per-key", len(evs) == 2*k)
	ons, offs := 0, 0
	channel := -1 // whichever channel the writer uses, one and the same for every on and off
	for _, ev := range evs {
		switch f := ev.op.Func.(type) {
		case *NoteOn:
			ons++
			if channel < 0 {
				channel = int(f.Channel)
			}
			vf.Assert("note-on-at-instance-start", ev.abs == start)
			vf.Assert("velocity-as-given", f.Velocity == vel && int(f.Channel) == channel && channel < 16)
		case *NoteOff:
			offs++
			vf.Assert("note-off-at-instance-end", ev.abs == start+ticks)
			vf.Assert("off-channel", channel < 0 || int(f.Channel) == channel)
		default:
			vf.Assert("only-note-events", false)
		}
	}
	vf.Assert("one-on-one-off-per-key", ons == k && offs == k)
	// the i-th key: exactly one on and one off, same track, on before off
	for i := 0; i < k; i++ {
		onT, offT, onI, offI := -1, -1, -1, -1
		for _, ev := range evs {
			if f, ok := ev.op.Func.(*NoteOn); ok && onT < 0 && f.Key == keys[i] && !verifTaken(evs, ev, keys, i, true) {
				onT, onI = ev.track, ev.index
			}
			if f, ok := ev.op.Func.(*NoteOff); ok && offT < 0 && f.Key == keys[i] && !verifTaken(evs, ev, keys, i, false) {
				offT, offI = ev.track, ev.index
			}
		}
		vf.Assert("key-has-on-and-off", onT >= 0 && offT >= 0)
		vf.Assert("on-and-off-on-same-track", onT == offT)
		vf.Assert("on-before-off-in-track-order", onI < offI)
	}
	// every track's clock is now the end of the instance; no pending rest
	for i := 0; i < n; i++ {
		vf.Assert("clock-at-instance-end", verifAbs(ts, base, i)+ts.list[i].tickDelta == start+ticks)
	}
	vf.Assert("pending-rest-consumed", w.tickDelta == 0)
	vf.Reach("end")
}

// verifTaken: with duplicate keys in one chord the j-th duplicate is matched with the j-th
// on/off of that key; an event is "taken" if an earlier duplicate of keys[i] claims it.
func verifTaken(evs []verifEvent, ev verifEvent, keys []uint8, i int, on bool) bool {
	dupBefore := 0
	for j := 0; j < i; j++ {
		if keys[j] == keys[i] {
			dupBefore++
		}
	}
	seen := 0
	for _, e := range evs {
		var k uint8
		var match bool
		if on {
			f, ok := e.op.Func.(*NoteOn)
			if ok {
				k, match = f.Key, true
			}
		} else {
			f, ok := e.op.Func.(*NoteOff)
			if ok {
				k, match = f.Key, true
			}
		}
		if !match || k != keys[i] {
			continue
		}
		if e.op == ev.op {
			return seen < dupBefore
		}
		seen++
	}
	return false
}

// VerifC02RestStep: a rest emits nothing and moves the next start by its length.
func VerifC02RestStep() {
	n := vf.NondetIntRange("tracks", 1, vf.Param("C02.maxTracks", 4))
	w, ts, base, _, rest := verifWriter(n)
	value, ticks := verifDur(vf.NondetIntRange("dur", 0, len(verifDurRat)-1))
	w.Rest(value)
	vf.Assert("rest-emits-nothing", len(verifEvents(ts, base)) == 0)
	vf.Assert("rest-accumulates", w.tickDelta == rest+ticks)
	vf.Reach("end")
}

// VerifC02ControlStep: tempo/meter/key/text/lyric/marker land at the instance start on
// track 0, consume the pending rest, and take no time.
func VerifC02ControlStep() {
	n := vf.NondetIntRange("tracks", 1, vf.Param("C02.maxTracks", 4))
	w, ts, base, g, rest := verifWriter(n)
	kind := vf.NondetIntRange("kind", 0, 5)
	txt := vf.NondetString("txt", 2)
	switch kind {
	case 0:
		w.Tempo(vf.NondetInt("bpm"))
	case 1:
		w.Meter(vf.NondetUint8("num"), vf.NondetUint8("den"))
	case 2:
		w.Key(vf.NondetUint8("k"), vf.NondetBool("maj"), vf.NondetUint8("cnt"), vf.NondetBool("flat"))
	case 3:
		w.Text(txt)
	case 4:
		w.Lyric(txt)
	case 5:
		w.Marker(txt)
	}
	evs := verifEvents(ts, base)
	vf.Assert("one-control-event", len(evs) == 1)
	if len(evs) == 1 {
		vf.Assert("control-on-first-track", evs[0].track == 0)
		vf.Assert("control-at-instance-start", evs[0].abs == g+rest)
	}
	for i := 0; i < n; i++ {
		vf.Assert("control-takes-no-time", verifAbs(ts, base, i)+ts.list[i].tickDelta == g+rest)
	}
	vf.Assert("pending-rest-consumed-by-control", w.tickDelta == 0)
	vf.Reach("end")
}

// VerifC02TwoNotes: two consecutive chords from an arbitrary state: the second starts exactly
// where the first ends, and on every track the first chord's events come before the second's
// (so at a shared tick a release precedes the next strike, also of the same pitch).
func VerifC02TwoNotes() {
	n := vf.NondetIntRange("tracks", 1, vf.Param("C02.maxTracks2", 3))
	w, ts, base, g, rest := verifWriter(n)
	k1 := vf.NondetIntRange("keys1", 1, 2)
	k2 := vf.NondetIntRange("keys2", 1, 2)
	mk := func(k int, name string) []uint8 {
		ks := make([]uint8, k)
		for i := range ks {
			ks[i] = vf.NondetUint8(name)
		}
		return ks
	}
	keys1, keys2 := mk(k1, "a"), mk(k2, "b")
	// the first from {1/4, 1, 3/2, 1/9, 1/7, 5/11}, the second from {1/2, 2/3, 1/10, 1/9, 1/7, 2/9}
	v1, t1 := verifDur([]int{0, 2, 3, 10, 11, 12}[vf.NondetIntRange("dur1", 0, 5)])
	v2, t2 := verifDur([]int{1, 8, 9, 10, 11, 13}[vf.NondetIntRange("dur2", 0, 5)])
	vf.Assert("first-ok", w.Note(v1, 64, keys1...) == nil)
	marks := make([]int, n)
	for i := range marks {
		marks[i] = len(ts.list[i].ops)
	}
	vf.Assert("second-ok", w.Note(v2, 64, keys2...) == nil)
	start := g + rest
	for i := 0; i < n; i++ {
		abs := base[i]
		for j, o := range ts.list[i].ops {
			abs += o.TickDelta
			first := j < marks[i]
			switch o.Func.(type) {
			case *NoteOn:
				vf.Assert("strike-at-its-instance-start", abs == vf.Ite(first, start, start+t1))
			case *NoteOff:
				vf.Assert("release-at-its-instance-end", abs == vf.Ite(first, start+t1, start+t1+t2))
			}
		}
		vf.Assert("clock-after-two-chords", abs+ts.list[i].tickDelta == start+t1+t2)
	}
	vf.Reach("end")
}
