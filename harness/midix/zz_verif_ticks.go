package midix

import (
	"github.com/berquerant/crd/util"
	vf "github.com/berquerant/crd/zz_verif"
)

var (
	verifDenoms1 = []uint{1, 2, 3, 4, 5, 6, 7, 8, 9, 12, 16, 100,
		10, 11, 13, 14, 15, 17, 18, 19, 20, 21, 22, 23, 24, 25, 26, 27, 28, 29, 30, 31, 32, 48, 64, 96, 128, 960, 961}
	verifDenoms2 = []uint{1, 2, 3, 4, 5, 6, 7, 8, 12}
	verifDenoms3 = []uint{2, 3, 4, 8}
)

func verifRealWriter() *MIDIWriter {
	c, _ := NewTrackSetControllerFromTrackNum(1)
	return NewWriter(DefaultTicksPerQuoaterNote, c, DefaultInstrument, DefaultProgram)
}

func verifAbsDiff(a, b int64) int64 {
	return vf.Ite(a < b, b-a, a-b)
}

// VerifC02Ticks1: one fraction n/d (concrete d, symbolic n): the tick length is within
// half a tick of T*n/d, in exact integer arithmetic.
func VerifC02Ticks1() {
	w := verifRealWriter()
	T := int64(w.quoaterNoteTicks)
	vf.Assert("declared-resolution", T == 960)
	d := verifDenoms1[vf.NondetIntRange("d", 0, vf.Param("C02.numDenoms1", 12)-1)]
	n := vf.NondetUint("n")
	vf.Assume(n >= 1 && n <= uint(vf.Param("C02.maxNum1", 255)))
	v := util.NewRat(n, d).Float()
	t := int64(w.newTicks(v))
	vf.Assert("ticks-within-half-of-exact", 2*verifAbsDiff(T*int64(n), t*int64(d)) <= int64(d))
	vf.Reach("end")
}

// VerifC02Ticks2: two fractions summed the way play.MIDIWriter.Write sums them.
func VerifC02Ticks2() {
	w := verifRealWriter()
	T := int64(w.quoaterNoteTicks)
	nd := vf.Param("C02.numDenoms2", 4)
	d1 := verifDenoms2[vf.NondetIntRange("d1", 0, nd-1)]
	d2 := verifDenoms2[vf.NondetIntRange("d2", 0, nd-1)]
	n1, n2 := vf.NondetUint("n1"), vf.NondetUint("n2")
	mx := uint(vf.Param("C02.maxNum2", 31))
	vf.Assume(n1 >= 1 && n1 <= mx && n2 >= 1 && n2 <= mx)
	var value float64
	value += util.NewRat(n1, d1).Float()
	value += util.NewRat(n2, d2).Float()
	t := int64(w.newTicks(value))
	L := int64(d1 * d2)
	exact := T * (int64(n1)*int64(d2) + int64(n2)*int64(d1)) // scaled by L
	vf.Assert("sum-ticks-within-half-of-exact", 2*verifAbsDiff(exact, t*L) <= L)
	vf.Reach("end")
}

// VerifC02Ticks3: three fractions.
func VerifC02Ticks3() {
	w := verifRealWriter()
	T := int64(w.quoaterNoteTicks)
	nd := vf.Param("C02.numDenoms3", 2)
	d1 := verifDenoms3[vf.NondetIntRange("d1", 0, nd-1)]
	d2 := verifDenoms3[vf.NondetIntRange("d2", 0, nd-1)]
	d3 := verifDenoms3[vf.NondetIntRange("d3", 0, nd-1)]
	n1, n2, n3 := vf.NondetUint("n1"), vf.NondetUint("n2"), vf.NondetUint("n3")
	mx := uint(vf.Param("C02.maxNum3", 15))
	vf.Assume(n1 >= 1 && n1 <= mx && n2 >= 1 && n2 <= mx && n3 >= 1 && n3 <= mx)
	var value float64
	value += util.NewRat(n1, d1).Float()
	value += util.NewRat(n2, d2).Float()
	value += util.NewRat(n3, d3).Float()
	t := int64(w.newTicks(value))
	L := int64(d1 * d2 * d3)
	exact := T * (int64(n1)*int64(d2*d3) + int64(n2)*int64(d1*d3) + int64(n3)*int64(d1*d2))
	vf.Assert("sum3-ticks-within-half-of-exact", 2*verifAbsDiff(exact, t*L) <= L)
	vf.Reach("end")
}
