package midix

import (
	"bytes"

	vf "github.com/berquerant/crd/zz_verif"
	"github.com/berquerant/crd/zz_verif/spec"
)

// VerifC08File: whatever a short sequence of writer operations produces serialises to bytes
// that a strict, independent SMF reader accepts: right header, --track chunks, one
// end-of-track last in each track, every note-on closed on its own track, tempo / time
// signature / key signature in the first track only.
func VerifC08File() {
	n := vf.NondetIntRange("tracks", 1, vf.Param("C08.maxTracks", 3))
	c, err := NewTrackSetControllerFromTrackNum(n)
	vf.Assert("controller", err == nil)
	program := vf.NondetUint8("program")
	w := NewWriter(DefaultTicksPerQuoaterNote, c, DefaultInstrument, program)
	ops := vf.NondetIntRange("ops", 1, vf.Param("C08.maxOps", 2))
	notes := 0
	for i := 0; i < ops; i++ {
		switch vf.NondetIntRange("op", 0, 4) {
		case 0:
			k := vf.NondetIntRange("keys", 1, vf.Param("C08.maxKeys", 3))
			keys := make([]uint8, k)
			for j := range keys {
				keys[j] = vf.NondetUint8("key")
			}
			dur := verifDurations[vf.NondetIntRange("dur", 0, 3)]
			vel := vf.NondetUint8("vel")
			vf.Assume(vel >= 1) // crd's dynamics are 22..127; velocity 0 would be a note-off by MIDI convention
			vf.Assert("note-ok", w.Note(dur, vel, keys...) == nil)
			notes += k
		case 1:
			w.Rest(verifDurations[vf.NondetIntRange("dur", 0, 3)])
		case 2:
			w.Tempo([]int{100, 1, 240, 60000001}[vf.NondetIntRange("bpm", 0, 3)])
		case 3:
			w.Meter(vf.NondetUint8("num"), vf.NondetUint8("den"))
		case 4:
			w.Key(vf.NondetUint8("k"), vf.NondetBool("maj"), vf.NondetUint8("cnt"), vf.NondetBool("flat"))
		}
	}
	w.Close()
	var buf bytes.Buffer
	_, werr := w.WriteTo(&buf)
	vf.Assert("write-succeeds", werr == nil)
	f, why := spec.ParseSMF(buf.Bytes())
	vf.Assert("well-formed-smf", f != nil && why == "")
	if f == nil {
		return
	}
	vf.Assert("format-0-for-one-track-1-for-several", f.Format == vf.Ite(n == 1, 0, 1))
	vf.Assert("one-chunk-per-track", f.NTracks == n && len(f.Tracks) == n)
	vf.Assert("declared-resolution", f.Division == 960)
	ons, offs := 0, 0
	for t, evs := range f.Tracks {
		// every note-on is closed by a later note-off of the same key and channel on this track
		open := map[int]int{}
		for _, ev := range evs {
			switch {
			case ev.Status&0xF0 == 0x90 && ev.Data[1] > 0:
				open[int(ev.Status&0x0F)<<8|int(ev.Data[0])]++
				ons++
			case ev.Status&0xF0 == 0x80 || (ev.Status&0xF0 == 0x90 && ev.Data[1] == 0):
				k := int(ev.Status&0x0F)<<8 | int(ev.Data[0])
				vf.Assert("note-off-closes-an-open-note", open[k] > 0)
				open[k]--
				offs++
			case ev.Status == 0xFF && (ev.MetaType == 0x51 || ev.MetaType == 0x58 || ev.MetaType == 0x59):
				vf.Assert("tempo-and-signatures-in-first-track-only", t == 0)
			}
		}
		for _, v := range open {
			vf.Assert("no-hanging-note", v == 0)
		}
	}
	vf.Assert("every-note-written", ons <= notes && offs <= notes && ons+offs >= 0)
	vf.Reach("end")
}
