package midix

import (
	"bytes"

	vf "github.com/berquerant/crd/zz_verif"
	"github.com/berquerant/crd/zz_verif/spec"
)

// VerifC08File: whatever a short sequence of writer operations produces serialises to bytes
// that a strict, independent SMF reader accepts: right header, --track chunks, one
// end-of-track last in each track, every note-on closed on its own track, tempo / time
// signature / key signature in the first track only.
func VerifC08File() {
	n := vf.NondetIntRange("tracks", 1, vf.Param("C08.maxTracks", 3))
	c, err := NewTrackSetControllerFromTrackNum(n)
	vf.Assert("controller", err == nil)
	program := vf.NondetUint8("program")
	w := NewWriter(DefaultTicksPerQuoaterNote, c, DefaultInstrument, program)
	ops := vf.NondetIntRange("ops", 1, vf.Param("C08.maxOps", 2))
	notes := 0
	// control events in the order written: kind (meta type), and the payload the SMF must carry
	type control struct {
		typ     byte
		bpm     int
		a, b    uint8
		maj, fl bool
	}
	var controls []control
	for i := 0; i < ops; i++ {
		switch vf.NondetIntRange("op", 0, 4) {
		case 0:
			k := vf.NondetIntRange("keys", 1, vf.Param("C08.maxKeys", 3))
			keys := make([]uint8, k)
			for j := range keys {
				keys[j] = vf.NondetUint8("key")
			}
			dur := verifDurations[vf.NondetIntRange("dur", 0, 3)]
			vel := vf.NondetUint8("vel")
			vf.Assume(vel >= 1) // crd's dynamics are 22..127; velocity 0 would be a note-off by MIDI convention
			vf.Assert("note-ok", w.Note(dur, vel, keys...) == nil)
			notes += k
		case 1:
			w.Rest(verifDurations[vf.NondetIntRange("dur", 0, 3)])
		case 2:
			bpm := []int{100, 60, 240, 33, 999}[vf.NondetIntRange("bpm", 0, 4)]
			w.Tempo(bpm)
			controls = append(controls, control{typ: 0x51, bpm: bpm})
		case 3:
			num := vf.NondetUint8("num")
			den := []uint8{1, 2, 4, 8, 16, 32}[vf.NondetIntRange("den", 0, 5)]
			w.Meter(num, den)
			controls = append(controls, control{typ: 0x58, a: num, b: den})
		case 4:
			cnt := vf.NondetUint8("cnt")
			vf.Assume(cnt <= 7)
			maj, fl := vf.NondetBool("maj"), vf.NondetBool("flat")
			w.Key(vf.NondetUint8("k"), maj, cnt, fl)
			controls = append(controls, control{typ: 0x59, a: cnt, maj: maj, fl: fl})
		}
	}
	w.Close()
	var buf bytes.Buffer
	_, werr := w.WriteTo(&buf)
	vf.Assert("write-succeeds", werr == nil)
	f, why := spec.ParseSMF(buf.Bytes())
	vf.Assert("well-formed-smf", f != nil && why == "")
	if f == nil {
		return
	}
	vf.Assert("format-0-for-one-track-1-for-several", f.Format == vf.Ite(n == 1, 0, 1))
	vf.Assert("one-chunk-per-track", f.NTracks == n && len(f.Tracks) == n)
	vf.Assert("declared-resolution", f.Division == 960)
	ons, offs := 0, 0
	for t, evs := range f.Tracks {
		// every note-on is closed by a later note-off of the same key and channel on this track
		open := map[int]int{}
		for _, ev := range evs {
			switch {
			case ev.Status&0xF0 == 0x90 && ev.Data[1] > 0:
				open[int(ev.Status&0x0F)<<8|int(ev.Data[0])]++
				ons++
			case ev.Status&0xF0 == 0x80 || (ev.Status&0xF0 == 0x90 && ev.Data[1] == 0):
				k := int(ev.Status&0x0F)<<8 | int(ev.Data[0])
				vf.Assert("note-off-closes-an-open-note", open[k] > 0)
				open[k]--
				offs++
			case ev.Status == 0xFF && (ev.MetaType == 0x51 || ev.MetaType == 0x58 || ev.MetaType == 0x59):
				vf.Assert("tempo-and-signatures-in-first-track-only", t == 0)
			}
		}
		for _, v := range open {
			vf.Assert("no-hanging-note", v == 0)
		}
	}
	vf.Assert("every-note-written", ons <= notes && offs <= notes && ons+offs >= 0)
	// tempo / time signature / key signature payloads, in the order written (track 0)
	ci := 0
	for _, ev := range f.Tracks[0] {
		if ev.Status != 0xFF || !(ev.MetaType == 0x51 || ev.MetaType == 0x58 || ev.MetaType == 0x59) {
			continue
		}
		vf.Assert("no-unwritten-control-event", ci < len(controls))
		if ci >= len(controls) {
			break
		}
		c := controls[ci]
		ci++
		vf.Assert("control-events-in-written-order", ev.MetaType == c.typ)
		if ev.MetaType != c.typ {
			break
		}
		switch c.typ {
		case 0x51:
			vf.Assert("tempo-payload-is-3-bytes", len(ev.Data) == 3)
			if len(ev.Data) == 3 {
				us := int(ev.Data[0])<<16 | int(ev.Data[1])<<8 | int(ev.Data[2])
				d := us*c.bpm - 60000000
				vf.Assert("tempo-is-60000000-over-bpm", 2*vf.Ite(d < 0, -d, d) <= c.bpm)
			}
		case 0x58:
			vf.Assert("time-signature-payload", len(ev.Data) == 4 && ev.Data[0] == c.a && (uint8(1)<<ev.Data[1]) == c.b)
		case 0x59:
			sf := int(int8(ev.Data[0]))
			vf.Assert("key-signature-payload", len(ev.Data) == 2 && sf == vf.Ite(c.fl, -int(c.a), int(c.a)) && (ev.Data[1] == 0) == c.maj)
		}
	}
	vf.Assert("every-control-event-written", ci == len(controls))
	vf.Reach("end")
}
