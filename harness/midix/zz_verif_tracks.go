package midix

import (
	vf "github.com/berquerant/crd/zz_verif"
)

// verifTrackState builds a TrackSet with n tracks in an arbitrary state satisfying the
// clock invariant I: for every track, abs(last op) + pending delay = G (global clock).
// Tracks hold no ops initially (their history is summarised by the ghost base[i]).
func verifTrackState(n int) (*TrackSet, []uint32, uint32) {
	ts := NewTrackSetFromTrackNum(n)
	g := vf.NondetUint32("G")
	base := make([]uint32, n)
	for i := 0; i < n; i++ {
		p := vf.NondetUint32("pend")
		ts.list[i].tickDelta = p
		base[i] = g - p
	}
	return ts, base, g
}

// verifAbs is the absolute tick of the last op of track i (ghost base + deltas of new ops).
func verifAbs(ts *TrackSet, base []uint32, i int) uint32 {
	abs := base[i]
	for _, o := range ts.list[i].ops {
		abs += o.TickDelta
	}
	return abs
}

// VerifC06AddStep: one TrackSet.Add from an arbitrary I-state, for every track count:
// the op lands at G+delta on its track, every track's clock becomes G+delta.
func VerifC06AddStep() {
	n := vf.NondetIntRange("tracks", 1, vf.Param("C06.maxTracks", 8))
	ts, base, g := verifTrackState(n)
	d := vf.NondetUint32("delta")
	// the op's kind must not matter for the bookkeeping: meta, fixed-track and note ops alike
	var typ OpType
	var fn OpFunc
	switch vf.NondetIntRange("kind", 0, 3) {
	case 1:
		typ, fn = NewMetaTrack(), &MetaTempo{BPM: 120}
	case 2:
		typ, fn = NewFixedTrack(vf.NondetIntRange("no", 0, 3)), &NoteOn{Key: 60, Velocity: 64}
	case 3:
		typ, fn = NewMetaTrack(), &Close{}
	}
	op := NewTrackOp(d, typ, fn)
	j := vf.NondetIntRange("track", 0, n-1)
	ts.Add(j, op)
	for i := 0; i < n; i++ {
		vf.Assert("clock-invariant-preserved", verifAbs(ts, base, i)+ts.list[i].tickDelta == g+d)
		if i == j {
			vf.Assert("delivered-to-selected-track", len(ts.list[i].ops) == 1 && ts.list[i].ops[0] == op)
		} else {
			vf.Assert("not-delivered-elsewhere", len(ts.list[i].ops) == 0)
		}
	}
	vf.Assert("event-at-global-time", verifAbs(ts, base, j) == g+d)
	vf.Assert("selected-track-has-no-pending-delay", ts.list[j].tickDelta == 0)
	vf.Reach("end")
}

// VerifC06TwoAdds: two consecutive Adds (to arbitrary tracks): the second event is at
// G+d1+d2 regardless of track choice — so merged timelines do not depend on distribution.
func VerifC06TwoAdds() {
	n := vf.NondetIntRange("tracks", 1, vf.Param("C06.maxTracks2", 4))
	ts, base, g := verifTrackState(n)
	d1, d2 := vf.NondetUint32("d1"), vf.NondetUint32("d2")
	op1, op2 := NewTrackOp(d1, nil, nil), NewTrackOp(d2, nil, nil)
	j1 := vf.NondetIntRange("t1", 0, n-1)
	j2 := vf.NondetIntRange("t2", 0, n-1)
	ts.Add(j1, op1)
	abs1 := verifAbs(ts, base, j1)
	ts.Add(j2, op2)
	abs2 := verifAbs(ts, base, j2)
	vf.Assert("first-event-time", abs1 == g+d1)
	vf.Assert("second-event-time", abs2 == g+d1+d2)
	for i := 0; i < n; i++ {
		vf.Assert("clock-invariant-after-two", verifAbs(ts, base, i)+ts.list[i].tickDelta == g+d1+d2)
	}
	vf.Reach("end")
}

// VerifC06Select: meta ops go to track 0 (C08: tempo and signatures live in the first track); a
// fixed op goes to one of the N tracks, whichever the implementation chooses.
func VerifC06Select() {
	n := vf.NondetIntRange("tracks", 1, vf.Param("C06.maxTracksSel", 32))
	sel, err := NewTrackNoSelector(n)
	vf.Assert("selector-for-positive-count", err == nil && sel != nil)
	vf.Assert("meta-to-track-0", sel.Select(NewMetaTrack()) == 0)
	t := vf.NondetInt("no")
	vf.Assume(t >= 0)
	got := sel.Select(NewFixedTrack(t))
	vf.Assert("fixed-in-range", got >= 0 && got < n)
	// which of the N tracks a note goes to is the implementation's choice ("only their
	// distribution over tracks differs"); it must be one of them, and the same one each time
	vf.Assert("selection-is-a-function-of-the-index", sel.Select(NewFixedTrack(t)) == got)
	vf.Reach("end")
}

// VerifC06SelectRejects: a non-positive track count is refused.
func VerifC06SelectRejects() {
	n := vf.NondetInt("tracks")
	vf.Assume(n < 1)
	sel, err := NewTrackNoSelector(n)
	vf.Assert("non-positive-count-refused", err != nil && sel == nil)
	c, cerr := NewTrackSetControllerFromTrackNum(n)
	vf.Assert("controller-refused", cerr != nil && c == nil)
	vf.Reach("end")
}

// VerifC06CloseStep: Close from an arbitrary I-state with an arbitrary pending rest on the
// writer: every track gets exactly one end-of-track op, last, at G + pending rest.
func VerifC06CloseStep() {
	n := vf.NondetIntRange("tracks", 1, vf.Param("C06.maxTracks", 8))
	ts, base, g := verifTrackState(n)
	sel, _ := NewTrackNoSelector(n)
	rest := vf.NondetUint32("rest")
	w := &MIDIWriter{tickDelta: rest, quoaterNoteTicks: 960, set: NewTrackSetController(ts, sel)}
	w.Close()
	for i := 0; i < n; i++ {
		ops := ts.list[i].ops
		vf.Assert("one-end-of-track-per-track", len(ops) == 1)
		if len(ops) != 1 {
			continue
		}
		_, isClose := ops[0].Func.(*Close)
		vf.Assert("end-of-track-is-close-op", isClose)
	}
	// read the ops back only now, so that one TrackOp shared between tracks is visible
	for i := 0; i < n; i++ {
		if len(ts.list[i].ops) != 1 {
			continue
		}
		if n == 1 {
			vf.Class("N=1")
		} else {
			vf.Class("N>=2")
		}
		vf.Assert("end-of-track-at-total-duration", verifAbs(ts, base, i) == g+rest)
	}
	vf.Class("")
	vf.Reach("end")
}

// VerifC08TrackCountLimit: the SMF header states the number of tracks in 16 bits; a track
// count it cannot state is refused (never a file whose header declares another count).
func VerifC08TrackCountLimit() {
	n := []int{65535, 65536, 65537, 70000, 1 << 20}[vf.NondetIntRange("count", 0, 4)]
	sel, err := NewTrackNoSelector(n)
	if n <= 65535 {
		vf.Assert("statable-count-accepted", err == nil && sel != nil)
	} else {
		vf.Assert("unstatable-track-count-refused", err != nil && sel == nil)
	}
	vf.Reach("end")
}
